"""C05: iterative mode: spec reported iff start derivable bottom-up with recursion allowed to the start's own equivalence class."""
import sys; sys.path.insert(0, "/repo")
from comb_spec_searcher.rule_db import RuleDB
class Strat: pass
class R:
    def __init__(s, n, two): s.children=[object()]*n; s.possibly_empty=False; s.strategy=Strat(); s._two=two
    def is_two_way(s): return s._two
class Pack: iterative=True
class Searcher:
    start_label=0; strategy_pack=Pack(); classdb=None
def run(order):
    db = RuleDB(); db.link_searcher(Searcher())
    for st, ends, two in order: db.add(st, ends, R(len(ends), two))
    return db.has_specification()
rules = [(0,(1,),True), (1,(0,2),False), (2,(),False)]
# oracle: classes {0,1} equivalent; rule {0,1}->({0,1},2) with recursion to root class allowed, 2->() : derivable
import itertools
bad=[o for o in itertools.permutations(rules) if not run(o)]
print("FAIL" if bad else "OK", len(bad)); sys.exit(1 if bad else 0)
