"""C15: ClassDB membership must be total; get_class must raise KeyError for unknown ints."""
import sys; sys.path.insert(0, "/repo")
from example import AvoidingWithPrefix
from comb_spec_searcher.class_db import ClassDB
db = ClassDB(AvoidingWithPrefix)
db.get_label(AvoidingWithPrefix("", ["a"], "ab"))
db.get_label(AvoidingWithPrefix("a", ["a"], "ab"))
bad = []
for k in (-3, -2, -1, 2, 3, 7):
    try:
        r = k in db
        if r is not False: bad.append((k, "in ->", r))
    except Exception as e: bad.append((k, "in raised", type(e).__name__))
    try:
        c = db.get_class(k); bad.append((k, "get_class returned", repr(c)))
    except KeyError: pass
    except Exception as e: bad.append((k, "get_class raised", type(e).__name__))
assert (0 in db) and (1 in db)
print("FAIL" if bad else "OK", bad); sys.exit(1 if bad else 0)
