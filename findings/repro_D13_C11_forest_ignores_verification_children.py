"""D13 (C11, also C02/C03): the forest rule database ignored the children of a verification rule.

VerificationStrategy.decomposition_function documents that a verification rule "could have children to mark dependencies",
but VerificationStrategy.shifts returned () whatever the children, and TableMethod._compute_shift pairs children with shifts
(zip), so the dependency was dropped: the verified class pumped at once, has_specification() answered True and the extraction
then failed with RuntimeError("Not pumping after adding all rules"), where RuleDB answers SpecificationNotFound.

run:  PYTHONPATH=/verif:/repo /verif/.venv312/bin/python findings/repro_D13_C11_forest_ignores_verification_children.py
exit 1 = defect present, 0 = absent."""
import logging
import sys

import logzero

from comb_spec_searcher import CombinatorialSpecificationSearcher, StrategyPack
from comb_spec_searcher.rule_db import RuleDBForest
from comb_spec_searcher.strategies.strategy import VerificationStrategy
from harness.universe import Av, ExpansionStrategy, RemoveFrontOfPrefix, StatAtomStrategy
from harness.universe import VerifiedThroughFactor as _VTF


class VerifiedThroughFactor(_VTF):
    """the toy verification strategy with a dependency, relying on the library's DEFAULT shifts"""
    shifts = VerificationStrategy.shifts


logzero.loglevel(logging.CRITICAL)
start = Av("ab", ["aba", "bbb"], "ab")
bad = False
for prefix in ("abb", "ab", "abba", "abbb", "aab", "ba"):
    c = Av(prefix, ["aba", "bbb"], "ab")
    if VerifiedThroughFactor().verified(c):
        rule = VerifiedThroughFactor()(c)
        print("verification rule for", c, "children:", rule.children, "shifts:", rule.shifts())
        bad = len(rule.shifts()) != len(rule.children)
        break
css = CombinatorialSpecificationSearcher(
    start,
    StrategyPack(initial_strats=[RemoveFrontOfPrefix()], inferral_strats=[], expansion_strats=[[ExpansionStrategy()]],
                 ver_strats=[StatAtomStrategy(), VerifiedThroughFactor()], name="dependent"),
    ruledb=RuleDBForest())
try:
    spec = css.auto_search(max_expansion_time=20)
    counts = [spec.count_objects_of_size(n) for n in range(7)]
    brute = [len(list(start.objects_of_size(n))) for n in range(7)]
    print("specification with", spec.number_of_rules(), "rules; counts", counts, "brute force", brute)
    bad = bad or counts != brute
except RuntimeError as e:
    print("RuntimeError:", e)
    bad = True
print("DEFECT PRESENT" if bad else "defect absent")
sys.exit(1 if bad else 0)
