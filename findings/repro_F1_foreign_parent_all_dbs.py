"""C14: RuleDBForgetStrategy cannot hand back the strategy of a stored rule that a StrategyFactory produced while
expanding a class that is neither the rule's parent nor one of its children (the searcher records such rules:
comb_spec_searcher.py:245-248).  The default RuleDB returns a specification, the forget database raises."""
import sys; sys.path.insert(0, "/repo")
from example import AvoidingWithPrefix, RemoveFrontOfPrefix, ExpansionStrategy
from comb_spec_searcher import CombinatorialSpecificationSearcher, StrategyPack, AtomStrategy, StrategyFactory
from comb_spec_searcher.rule_db import RuleDB, RuleDBForgetStrategy, RuleDBForest

class ExpansionUnlessSingle(ExpansionStrategy):
    def decomposition_function(self, c):
        return None if len(c.prefix) == 1 else super().decomposition_function(c)

class SiblingRuleFactory(StrategyFactory):
    """Expanding the class with prefix 'a' yields the (valid) expansion rule of the class with prefix 'b' and vice versa."""
    def __call__(self, c):
        if c.just_prefix or c.is_empty() or len(c.prefix) != 1:
            return
        for letter in c.alphabet:
            if letter != c.prefix:
                yield ExpansionStrategy()(AvoidingWithPrefix(letter, c.patterns, c.alphabet))
    def __str__(self): return "sibling"
    def __repr__(self): return "SiblingRuleFactory()"
    @classmethod
    def from_dict(cls, d): return cls()

pack = StrategyPack(initial_strats=[RemoveFrontOfPrefix()], inferral_strats=[],
                    expansion_strats=[[ExpansionUnlessSingle()], [SiblingRuleFactory()]],
                    ver_strats=[AtomStrategy()], name="sibling")
res = {}
for R in (RuleDB, RuleDBForgetStrategy, RuleDBForest):
    css = CombinatorialSpecificationSearcher(AvoidingWithPrefix("", ["aba", "bab"], ["a", "b"]), pack, ruledb=R())
    try:
        spec = css.auto_search()
        res[R.__name__] = ("spec", [spec.count_objects_of_size(n) for n in range(7)])
    except Exception as e:
        res[R.__name__] = (type(e).__name__, str(e)[:90])
print(res)
ok = res["RuleDB"] == res["RuleDBForgetStrategy"] == res["RuleDBForest"]
print("OK" if ok else "FAIL"); sys.exit(0 if ok else 1)
