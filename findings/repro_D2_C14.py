"""C14: RuleDBBase.contains must answer membership without raising."""
import sys; sys.path.insert(0, "/repo")
from example import AvoidingWithPrefix, pack
from comb_spec_searcher import CombinatorialSpecificationSearcher
from comb_spec_searcher.rule_db import RuleDB, RuleDBForgetStrategy
bad=[]
for R in (RuleDB, RuleDBForgetStrategy):
    css = CombinatorialSpecificationSearcher(AvoidingWithPrefix("", ["ab"], "ab"), pack, ruledb=R())
    css.auto_search()
    for s, e in list(css.ruledb):
        try:
            if not css.ruledb.contains(s, e): bad.append((R.__name__, s, e, False))
            if not css.ruledb.contains(s, tuple(reversed(e))): bad.append((R.__name__, s, e, 'rev False'))
        except Exception as ex: bad.append((R.__name__, s, e, type(ex).__name__)); break
    try:
        if css.ruledb.contains(999, (998,)): bad.append((R.__name__, 'absent True'))
    except Exception as ex: bad.append((R.__name__, 'absent', type(ex).__name__))
print("FAIL" if bad else "OK", bad); sys.exit(1 if bad else 0)
