"""C12: a constructed Bijection must map every object; atom matched against a class merely equivalent to an atom."""
import sys; sys.path.insert(0, "/repo")
from example import AvoidingWithPrefix, Word, pack
from comb_spec_searcher import CombinatorialSpecificationSearcher
from comb_spec_searcher.isomorphism import Bijection
s1 = CombinatorialSpecificationSearcher(AvoidingWithPrefix("", ["a"], ["a"]), pack).auto_search()             # {""}: root = (atom "") + (empty)  -> equivalence path to the atom
s2 = CombinatorialSpecificationSearcher(AvoidingWithPrefix("", [], ["a"], just_prefix=True), pack).auto_search()  # the atom "" itself
bad = []
for x, y in ((s1, s2), (s2, s1)):
    bij = Bijection.construct(x, y)
    assert bij is not None
    for name, f, obj in (("map", bij.map, Word("")), ("inverse_map", bij.inverse_map, Word(""))):
        try:
            assert f(obj) == ""
        except Exception as e:
            bad.append((x is s1, name, type(e).__name__))
print("FAIL" if bad else "OK", bad); sys.exit(1 if bad else 0)
