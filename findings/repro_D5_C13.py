"""C13: ParallelSpecFinder must not fail when the start class is equivalent to another class of its universe."""
import sys; sys.path.insert(0, "/repo")
from example import AvoidingWithPrefix, pack
from comb_spec_searcher import CombinatorialSpecificationSearcher
from comb_spec_searcher.bijection import ParallelSpecFinder, EqPathParallelSpecFinder
bad=[]
for F in (ParallelSpecFinder, EqPathParallelSpecFinder):
    try:
        r = F(CombinatorialSpecificationSearcher(AvoidingWithPrefix("", ["a"], "a"), pack),
              CombinatorialSpecificationSearcher(AvoidingWithPrefix("", ["b"], "b"), pack)).find()
        if r is not None:
            s1, s2 = r
            assert [s1.count_objects_of_size(n) for n in range(5)] == [1,0,0,0,0]
            assert [s2.count_objects_of_size(n) for n in range(5)] == [1,0,0,0,0]
    except Exception as e: bad.append((F.__name__, type(e).__name__, str(e)[:60]))
print("FAIL" if bad else "OK", bad); sys.exit(1 if bad else 0)
