"""C14: forget DB must hand back a strategy for every stored key and find the same spec as the default DB."""
import sys; sys.path.insert(0, "/repo")
from example import AvoidingWithPrefix, RemoveFrontOfPrefix, ExpansionStrategy
from comb_spec_searcher import CombinatorialSpecificationSearcher, StrategyPack, AtomStrategy, VerificationStrategy
from comb_spec_searcher.rule_db import RuleDB, RuleDBForgetStrategy
class LongPrefixVerified(VerificationStrategy):
    def verified(self, c): return (not c.just_prefix) and len(c.prefix) >= 2
    def formal_step(self): return "long prefix"
    def pack(self, c): raise NotImplementedError
    @classmethod
    def from_dict(cls, d): return cls()
    def get_terms(self, c, n): raise NotImplementedError
pack = StrategyPack(initial_strats=[RemoveFrontOfPrefix()], inferral_strats=[], expansion_strats=[[ExpansionStrategy()]],
                    ver_strats=[AtomStrategy(), LongPrefixVerified()], name="x")
res = {}
for R in (RuleDB, RuleDBForgetStrategy):
    css = CombinatorialSpecificationSearcher(AvoidingWithPrefix("", ["aaa"], "ab"), pack, ruledb=R())
    try:
        spec = css.auto_search(); res[R.__name__] = ("spec", spec.number_of_rules())
    except Exception as e: res[R.__name__] = (type(e).__name__, str(e)[:80])
print(res); ok = res["RuleDB"] == res["RuleDBForgetStrategy"]
print("OK" if ok else "FAIL"); sys.exit(0 if ok else 1)
