"""C20: CartesianProduct.get_equation must substitute a child variable by the product of ALL parent variables mapped
to it (as DisjointUnion.get_equation does and as get_terms counts)."""
import sys; sys.path.insert(0, "/repo")
from collections import Counter
import sympy
from comb_spec_searcher.strategies.constructor import CartesianProduct

class C:
    def __init__(self, params, minsize=0, atom=False): self.extra_parameters, self._m, self._a = params, minsize, atom
    def minimum_size_of_object(self): return self._m
    def is_atom(self): return self._a
    def get_minimum_value(self, p): return 0

P, A, B = C(("x", "y")), C(("a",)), C(("b1", "b2"))
maps = ({"x": "a", "y": "a"}, {"x": "b1", "y": "b2"})
cp = CartesianProduct(P, (A, B), maps)
x, y, a, b1, b2, z = sympy.symbols("x y a b1 b2 z")
fP, fA, fB = sympy.Function("P")(z, x, y), sympy.Function("A")(z, a), sympy.Function("B")(z, b1, b2)
eq = cp.get_equation(fP, (fA, fB))
# terms: A has one object of size 0 with a = 1, B one object of size 0 with (b1, b2) = (0, 0)
terms = cp.get_terms(None, (lambda n: Counter({(1,): 1}) if n == 0 else Counter(), lambda n: Counter({(0, 0): 1}) if n == 0 else Counter()), 0)
print("terms  :", dict(terms))          # {(1, 1): 1}: the object has x = 1 and y = 1
print("equation:", eq)
rhs = eq.rhs.subs({fA.func: sympy.Lambda((z, a), a), fB.func: sympy.Lambda((z, b1, b2), 1)}).doit()
rhs = eq.rhs.replace(sympy.Function("A"), lambda zz, aa: aa).replace(sympy.Function("B"), lambda zz, p, q: 1)
expected = x * y
print("rhs with A = a, B = 1:", sympy.simplify(rhs), " expected", expected)
ok = sympy.simplify(rhs - expected) == 0
print("OK" if ok else "FAIL"); sys.exit(0 if ok else 1)
