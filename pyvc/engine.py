"""Symbolic executor: real Python AST + sidecar contract -> verification conditions (z3 terms).

One Executor instance verifies one function.  Calls are replaced by the callee's contract (or inlined from the
callee's real source when the contract says inline=True); loops are cut at their invariants.
"""
import ast
import z3
from . import ty
from .ty import Int, Bool, NoneT, Str, Opt, Seq, Tup, List, Deque, Dict, Set, Obj, Opaque, Fun, Map
from .core import (MemView, Unknown, Untranslatable, ContractError, Val, PyConst, PyTuple, BoundMethod, FuncRef, Closure, ProviderCall,
                   View, State, Outcome, Obligation, Heap, fresh, none_val, int_val, bool_val, type_heap_keys)

EXC_PARENTS = {
    "IndexError": "LookupError", "KeyError": "LookupError", "LookupError": "Exception", "ValueError": "Exception",
    "TypeError": "Exception", "AssertionError": "Exception", "StopIteration": "Exception", "RuntimeError": "Exception",
    "NotImplementedError": "RuntimeError", "Exception": "BaseException", "ZeroDivisionError": "ArithmeticError",
    "ArithmeticError": "Exception", "AttributeError": "Exception",
    # library exceptions (comb_spec_searcher/exception.py)
    "InvalidOperationError": "Exception", "TaskNotCompleted": "Exception", "ExceededMaxtimeError": "Exception",
    "NoMoreClassesToExpandError": "Exception", "ObjectMappingError": "Exception", "SpecificationNotFound": "Exception",
    "StrategyDoesNotApply": "Exception",
}


def exc_matches(exc, handler):
    while exc is not None:
        if exc == handler:
            return True
        exc = EXC_PARENTS.get(exc)
    return False


_ssum = None


def ssum_fn():
    global _ssum
    if _ssum is None:
        S = z3.SeqSort(z3.IntSort())
        f = z3.RecFunction("ssum", S, z3.IntSort())
        s = z3.Const("ssum_s", S)
        z3.RecAddDefinition(f, [s], z3.If(z3.Length(s) == 0, 0, s[0] + f(z3.SubSeq(s, 1, z3.Length(s) - 1))))
        _ssum = f
    return _ssum


def simp(z):
    return z3.simplify(z)


def ann_to_type(node, aliases):
    """Map a type annotation of the real code to a pyvc type (best effort; None if unknown)."""
    try:
        if isinstance(node, ast.Constant) and isinstance(node.value, str):
            node = ast.parse(node.value, mode="eval").body
        if isinstance(node, ast.Name):
            if node.id in aliases:
                return aliases[node.id]
            return {"int": Int, "bool": Bool, "str": Str}.get(node.id)
        if isinstance(node, ast.Subscript):
            base = node.value.id if isinstance(node.value, ast.Name) else getattr(node.value, "attr", None)
            args = node.slice.elts if isinstance(node.slice, ast.Tuple) else [node.slice]
            if base in ("List", "list"):
                e = ann_to_type(args[0], aliases)
                return List(e) if e else None
            if base in ("Deque", "deque"):
                e = ann_to_type(args[0], aliases)
                return Deque(e) if e else None
            if base in ("Set", "set"):
                e = ann_to_type(args[0], aliases)
                return Set(e) if e else None
            if base in ("Dict", "dict", "DefaultDict"):
                k, v = ann_to_type(args[0], aliases), ann_to_type(args[1], aliases)
                return Dict(k, v) if k and v else None
            if base in ("Counter", "CounterType"):
                k = ann_to_type(args[0], aliases)
                return ty.Counter(k) if k else None
            if base == "Optional":
                e = ann_to_type(args[0], aliases)
                return Opt(e) if e else None
            if base in ("Tuple", "tuple"):
                if len(args) == 2 and isinstance(args[1], ast.Constant) and args[1].value is Ellipsis:
                    e = ann_to_type(args[0], aliases)
                    return Seq(e) if e else None
                es = [ann_to_type(a, aliases) for a in args]
                return Tup(*es) if all(es) else None
    except Exception:
        return None
    return None


def _consts_of(zs):
    """Uninterpreted constants occurring in the formulas zs."""
    seen, out, todo = set(), {}, list(zs)
    while todo:
        x = todo.pop()
        if x.get_id() in seen:
            continue
        seen.add(x.get_id())
        if z3.is_quantifier(x):
            todo.append(x.body())
        elif z3.is_app(x):
            if x.num_args() == 0 and x.decl().kind() == z3.Z3_OP_UNINTERPRETED:
                out[x.get_id()] = x
            todo.extend(x.children())
    return list(out.values())


def _has_quantifier(z, limit=4000):
    seen, todo = set(), [z]
    while todo and len(seen) < limit:
        x = todo.pop()
        if x.get_id() in seen:
            continue
        seen.add(x.get_id())
        if z3.is_quantifier(x):
            return True
        if z3.is_app(x):
            todo.extend(x.children())
    return bool(todo)


def _skolemize(b, mark, formulas):
    """Constants created (after `mark`) while evaluating something for the arbitrary position/key b are values that
    depend on b: replace each such constant c by F_c(b).  Returns the rewritten formulas."""
    subst = []
    for c in _consts_of(formulas):
        nm = c.decl().name()
        if "!" in nm and nm.rsplit("!", 1)[1].isdigit() and int(nm.rsplit("!", 1)[1]) > mark and not c.eq(b):
            subst.append((c, z3.Function(nm + "_at", b.sort(), c.sort())(b)))
    if not subst:
        return list(formulas)
    return [z3.substitute(x, *subst) for x in formulas]


def _mark():
    return int(str(fresh("mark", z3.BoolSort())).split("!")[-1])


class Executor:
    MAX_PATHS = 4000

    def __init__(self, reg, contract, fnode, module, source_index, aliases=None):
        self.reg = reg
        self.c = contract
        self.fn = fnode
        self.module = module
        self.src = source_index            # object with .find(qual) -> (FunctionDef, module ast, file)
        self.aliases = aliases or {}
        self.heap = Heap()
        self.obls = []
        self.raise_buf = []
        self.spec = False
        self.counters = {}
        self.entry = None
        self.cur_fn = contract.qual
        self.paths = 0
        self.covers = []
        self.assumption_log = set()
        self.inline_depth = 0
        self.yield_sites = 0
        self.result_val = None
        self.loop_ord = 0
        self.stmt_ord = {}
        self.cur_line = None
        self.inputs = {}
        self.lenient = getattr(contract, "lenient", False)
        self.muted = 0
        self.view_st = None
        self.inlined_nodes = {}
        self.validity_ids = set()

    # ------------------------------------------------------------------ ids / obligations
    def oid(self, kind):
        base = f"{self.cur_site}.{kind}" if getattr(self, "cur_site", None) else kind
        n = self.counters.get(base, 0)
        self.counters[base] = n + 1
        return base if n == 0 else f"{base}~{n}"

    def oblige(self, oid, st, goal, note=""):
        if self.spec or self.muted:
            return
        o = Obligation(f"{self.c.qual}/{oid}", st.pc, goal, self.cur_line, note)
        o.core = [h for h in st.pc if h.get_id() not in self.validity_ids]    # without "reference is allocated" facts
        o.inputs = dict(self.inputs)
        o.trivial = z3.is_true(goal) or (not z3.is_quantifier(goal) and z3.is_true(simp(goal)))
        self.obls.append(o)
        if ".callreq" in oid or "ghost_assert" in oid:
            # the clauses that carry a property at a specific site must not hold vacuously: the site is reachable
            # (one cover per site: the first path that reaches it)
            cid = f"{self.c.qual}/{oid.split('~')[0].rsplit('.callreq', 1)[0]}.cover"
            if cid not in {c[0] for c in self.covers}:
                self.covers.append((cid, list(st.pc)))

    def assume_log(self, what):
        self.assumption_log.add(what)

    # ------------------------------------------------------------------ references
    def new_ref(self, st):
        r = fresh("ref", z3.IntSort())
        st.assume(r == st.next_ref)
        st.next_ref = st.next_ref + 1
        return r

    def ref_paths(self, t, want, z):
        """SMT terms of the references of type `want` stored inside a value z of type t."""
        if t == want:
            return [z]
        out = []
        if isinstance(t, Tup):
            for i, e in enumerate(t.elts):
                out += self.ref_paths(e, want, t.proj(z, i))
        # Optional references are not tracked here (none of the verified containers stores them)
        return out

    def unshared(self, st, new):
        """Well-typed heap: a freshly allocated reference is stored nowhere yet."""
        t = new.t
        r, i = fresh("r", z3.IntSort()), fresh("i", z3.IntSort())
        for key in list(set(st.heap) | set(self.heap.initial)):
            arr = st.heap.get(key, self.heap.initial.get(key))
            if key[0] == "elem":
                for p in self.ref_paths(key[2], t, z3.Select(z3.Select(arr, r), i)):
                    st.assume(z3.ForAll([r, i], p != new.z))
            elif key[0] == "val":
                k = fresh("k", key[2].sort())
                for p in self.ref_paths(key[3], t, z3.Select(z3.Select(arr, r), k)):
                    st.assume(z3.ForAll([r, k], p != new.z))
            elif key[0] == "fld":
                for p in self.ref_paths(key[3], t, z3.Select(arr, r)):
                    st.assume(z3.ForAll([r], p != new.z))

    def alloc(self, st, t):
        """Allocate an empty container / blank object of mutable type t."""
        r = self.new_ref(st)
        self.unshared(st, Val(t, r))
        if isinstance(t, List):
            n = t.name()
            self.heap.set(st, ("len", n), z3.Store(self.heap.get(st, ("len", n)), r, 0))
            if isinstance(t, Deque):
                self.heap.set(st, ("off", n), z3.Store(self.heap.get(st, ("off", n)), r, 0))
        elif isinstance(t, Dict):
            kd = ("dom", t.name(), t.k)
            self.heap.set(st, kd, z3.Store(self.heap.get(st, kd), r, z3.K(t.k.sort(), z3.BoolVal(False))))
            kc = ("card", t.name())
            self.heap.set(st, kc, z3.Store(self.heap.get(st, kc), r, 0))
            if t.counter:
                kv = ("val", t.name(), t.k, t.v)
                self.heap.set(st, kv, z3.Store(self.heap.get(st, kv), r, z3.K(t.k.sort(), z3.IntVal(0))))
        elif isinstance(t, Set):
            kd = ("dom", t.name(), t.k)
            self.heap.set(st, kd, z3.Store(self.heap.get(st, kd), r, z3.K(t.k.sort(), z3.BoolVal(False))))
            kc = ("card", t.name())
            self.heap.set(st, kc, z3.Store(self.heap.get(st, kc), r, 0))
        return Val(t, r)

    def valid_ref(self, st, v):
        """Well-typed heap assumption: every reference read from the state is allocated."""
        bound = getattr(self, "_cur_bound_ids", None)
        if self.spec and bound and isinstance(v, Val) and v.t.mutable:
            from .calls import _mentions
            if _mentions(v.z, bound):
                return v  # a reference depending on a quantified variable: no side fact (it would guard the formula)
        if isinstance(v, Val) and v.t.mutable:
            z = z3.And(v.z >= 0, v.z < st.next_ref)
            self.validity_ids.add(z.get_id())
            st.assume(z)
        return v

    # ------------------------------------------------------------------ coercion
    def coerce(self, v, t, st):
        if isinstance(v, Unknown):
            return self.fresh_of_type(t, st, "unk")
        if isinstance(t, Opaque) and t.nm == "Expr" and isinstance(v, Val) and v.t == Int:
            return Val(t, z3.Function("expr_of_int", z3.IntSort(), t.sort())(v.z))
        if isinstance(v, Val) and isinstance(v.t, Opaque) and v.t.nm == "Any" and v.t != t \
                and not (isinstance(t, Opt) and t.elt == v.t):
            out = self.fresh_of_type(t, st, "from_any")        # an untracked JSON value used at a concrete type
            if t.mutable:
                for other in st.env.values():
                    if isinstance(other, Val) and other.t == t:
                        st.assume(out.z != other.z)
                self.assume_log("JSON values are trees: a container taken out of a dictionary is a different object "
                                "from every container the function holds")
            return out
        if isinstance(t, Opaque) and t.nm == "Any" and isinstance(v, Val) and isinstance(v.t, Opt) and v.t.elt == t:
            # Optional[Any] used as a value: the wrapped value itself (non-None is an obligation)
            self.oblige(self.oid("notnone"), st, z3.Not(v.t.is_none(v.z)), "Optional used as value")
            st.assume(z3.Not(v.t.is_none(v.z)))
            return Val(t, v.t.val(v.z))
        if isinstance(t, Opaque) and t.nm in ("Float", "StrT", "Any") and not (isinstance(v, Val) and v.t == t):
            return self.fresh_of_type(t, st, "untracked")       # floats and strings are not tracked
        if isinstance(v, Val):
            if v.t == t:
                return v
            if isinstance(t, Opt):
                if v.t == NoneT:
                    return Val(t, t.none())
                if v.t == t.elt:
                    return Val(t, t.some(v.z))
                if isinstance(v.t, Opt) and v.t.elt == t.elt:
                    return v
                inner = self.coerce(v, t.elt, st)
                return Val(t, t.some(inner.z))
            if isinstance(v.t, Opt) and v.t.elt == t:
                # use of an Optional where the value is required: Python would go on with None -> TypeError later.
                # The caller must have established non-None; we emit an obligation.
                self.oblige(self.oid("notnone"), st, z3.Not(v.t.is_none(v.z)), "Optional used as value")
                st.assume(z3.Not(v.t.is_none(v.z)))
                return Val(t, v.t.val(v.z))
            if t == Bool and v.t == Int:
                return Val(Bool, v.z != 0)
            if t == Int and v.t == Bool:
                return Val(Int, z3.If(v.z, 1, 0))
            if isinstance(t, Seq) and isinstance(v.t, Seq) and v.t.elt == t.elt:
                return v
            if isinstance(t, Seq) and isinstance(v.t, Tup) and all(e == t.elt for e in v.t.elts):
                items = [Val(t.elt, v.t.proj(v.z, i)) for i in range(len(v.t.elts))]
                return self.seq_of_items(items, t)
            if isinstance(t, Seq) and isinstance(v.t, Seq) and isinstance(v.t.elt, Opt) and v.t.elt.elt == t.elt:
                return self.unopt_seq(v, st)
            if isinstance(t, Seq) and isinstance(v.t, Seq) and isinstance(t.elt, Opt) and t.elt.elt == v.t.elt:
                # Seq(T) used where Seq(Optional[T]) is expected: the same sequence with every entry wrapped (a function of it)
                ot = t.elt
                f = z3.Function(f"optlift_{v.t.elt.name()}", v.z.sort(), z3.SeqSort(ot.sort()))
                r = f(v.z)
                i = fresh("i", z3.IntSort())
                st.assume(z3.Length(r) == z3.Length(v.z))
                st.assume(z3.ForAll([i], z3.Implies(z3.And(0 <= i, i < z3.Length(v.z)), r[i] == ot.some(v.z[i]))))
                return Val(t, r)
            if isinstance(t, List) and isinstance(v.t, List) and t.elt == v.t.elt:
                return v
            if isinstance(t, Obj) and isinstance(v.t, Obj) and t.cls in self.reg.mro(v.t.cls):
                return Val(t, v.z)        # upcast: same reference
            raise Untranslatable(f"cannot coerce {v.t} to {t}")
        if isinstance(v, View) and isinstance(t, List) and not isinstance(t, Deque):
            return self.list_from_view(v, st, t)
        if isinstance(v, tuple) and v and v[0] in ("listlit", "listcomp"):
            inner = v[1]
            if isinstance(inner, View) and isinstance(t, Seq):
                return self.materialise(inner, st, t.elt)
            if isinstance(inner, View) and isinstance(t, List) and not isinstance(t, Deque):
                return self.list_from_view(inner, st, t)
            return self.coerce(inner, t, st)
        if isinstance(v, PyTuple):
            if isinstance(t, Seq):
                return self.seq_of_items([self.coerce(i, t.elt, st) for i in v.items], t)
            if isinstance(t, Tup):
                if len(t.elts) != len(v.items):
                    raise Untranslatable("tuple arity mismatch")
                zs = [self.coerce(i, et, st).z for i, et in zip(v.items, t.elts)]
                return Val(t, t.mk(*zs))
            if isinstance(t, Opt):
                inner = self.coerce(v, t.elt, st)
                return Val(t, t.some(inner.z))
        if isinstance(v, BoundMethod) and isinstance(t, Fun) and isinstance(v.recv, Val):
            # a bound method stored as a provider: identified by (method name, receiver)
            f = z3.Function(f"bm_{v.name}", v.recv.z.sort(), z3.IntSort())
            return Val(t, f(v.recv.z))
        if isinstance(t, Opaque) and t.nm == "Any":
            return self.fresh_of_type(t, st, "any")
        if isinstance(t, Opaque) and self.lenient and isinstance(v, (View, tuple)):
            return self.fresh_of_type(t, st, "opq")      # a built collection handed on as an opaque value
        if isinstance(v, PyConst) and isinstance(v.v, str) and t == Str:
            return Val(Str, z3.StringVal(v.v))
        raise Untranslatable(f"cannot coerce {v!r} to {t}")

    def unopt_seq(self, v, st):
        """Seq(Opt(T)) used where Seq(T) is needed (e.g. summed after an `all(x is not None ...)` test): a FUNCTION of the
        sequence (same term at every use), defined pointwise where the entries are not None."""
        ot = v.t.elt
        f = z3.Function(f"unopt_{ot.elt.name()}", v.z.sort(), z3.SeqSort(ot.elt.sort()))
        r = f(v.z)
        i = fresh("i", z3.IntSort())
        st.assume(z3.Length(r) == z3.Length(v.z))
        st.assume(z3.ForAll([i], z3.Implies(z3.And(0 <= i, i < z3.Length(v.z), z3.Not(ot.is_none(v.z[i]))),
                                            r[i] == ot.val(v.z[i]))))
        return Val(Seq(ot.elt), r)

    def seq_of_items(self, items, t):
        if not items:
            return Val(t, z3.Empty(t.sort()), parts=("items", []))
        zs = [z3.Unit(i.z) for i in items]
        return Val(t, z3.Concat(*zs) if len(zs) > 1 else zs[0], parts=("items", list(items)))

    def guess_tuple(self, v, st):
        """Give a PyTuple a type from its items when no expected type is known."""
        if isinstance(v, PyTuple):
            items = [self.guess_tuple(i, st) for i in v.items]
            if items and all(isinstance(i, Val) and i.t == items[0].t for i in items) and not isinstance(items[0].t, Tup) \
                    and len(items) != 2 or (len(items) == 2 and all(isinstance(i, Val) for i in items)
                                            and items[0].t == items[1].t):
                return self.seq_of_items(items, Seq(items[0].t))
            if all(isinstance(i, Val) for i in items) and items:
                t = Tup(*[i.t for i in items])
                return Val(t, t.mk(*[i.z for i in items]))
            if not items:
                raise Untranslatable("empty tuple of unknown type")
        return v

    # ------------------------------------------------------------------ truthiness
    def truth(self, v, st):
        """Python truth value of v as an SMT Bool."""
        if isinstance(v, Unknown):
            return fresh("unk", z3.BoolSort())
        if isinstance(v, Val):
            t = v.t
            if t == Bool:
                return v.z
            if t == Int:
                return v.z != 0
            if t == NoneT:
                return z3.BoolVal(False)
            if isinstance(t, Opt):
                inner = Val(t.elt, t.val(v.z))
                if isinstance(t.elt, (Opaque, Obj, Tup)):
                    return z3.Not(t.is_none(v.z))
                return z3.And(z3.Not(t.is_none(v.z)), self.truth(inner, st))
            if isinstance(t, Seq):
                return z3.Length(v.z) > 0
            if isinstance(t, List):
                return self.list_len(st, v) > 0
            if isinstance(t, (Dict, Set)):
                self.card_axioms(st, v)
                return self.card(st, v) > 0
            if isinstance(t, (Obj, Opaque, Tup)):
                return z3.BoolVal(True)
        if isinstance(v, PyTuple):
            return z3.BoolVal(bool(v.items))
        if isinstance(v, PyConst):
            return z3.BoolVal(bool(v.v))
        if isinstance(v, BoundMethod) and self.lenient and isinstance(v.recv, Val) and isinstance(v.recv.t, Obj) \
                and self.reg.find_method(v.recv.t.cls, v.name) is None:
            # an attribute the contract does not declare (not a method under contract): its truth value is unknown
            self.assume_log(f"lenient: truth value of the undeclared attribute {v.recv.t.cls}.{v.name} is unknown")
            return fresh("unk", z3.BoolSort())
        raise Untranslatable(f"truth of {v!r}")

    # ------------------------------------------------------------------ heap primitives
    def list_len(self, st, v):
        return z3.Select(self.heap.get(st, ("len", v.t.name())), v.z)

    def list_off(self, st, v):
        if isinstance(v.t, Deque):
            return z3.Select(self.heap.get(st, ("off", v.t.name())), v.z)
        return z3.IntVal(0)

    def list_arr(self, st, v):
        return z3.Select(self.heap.get(st, ("elem", v.t.name(), v.t.elt)), v.z)

    def list_at_raw(self, st, v, i):
        """Element at 0-based position i (no bounds handling)."""
        off = self.list_off(st, v)
        e = z3.Select(self.list_arr(st, v), i if (z3.is_int_value(off) and off.as_long() == 0) else off + i)
        return self.valid_ref(st, Val(v.t.elt, e))

    def list_set_len(self, st, v, n):
        k = ("len", v.t.name())
        self.heap.set(st, k, z3.Store(self.heap.get(st, k), v.z, n))

    def list_set_arr(self, st, v, arr):
        k = ("elem", v.t.name(), v.t.elt)
        self.heap.set(st, k, z3.Store(self.heap.get(st, k), v.z, arr))

    def list_store(self, st, v, i, x):
        off = self.list_off(st, v)
        pos = i if (z3.is_int_value(off) and off.as_long() == 0) else off + i
        self.list_set_arr(st, v, z3.Store(self.list_arr(st, v), pos, x.z))

    def list_append(self, st, v, x):
        x = self.coerce(x, v.t.elt, st)
        n = self.list_len(st, v)
        st.assume(n >= 0)           # lengths of heap lists are non-negative (invariant of the encoding, as in list_extend)
        self.list_store(st, v, n, x)
        self.list_set_len(st, v, n + 1)

    def dom(self, st, v):
        return z3.Select(self.heap.get(st, ("dom", v.t.name(), v.t.k)), v.z)

    def card(self, st, v):
        return z3.Select(self.heap.get(st, ("card", v.t.name())), v.z)

    def dvals(self, st, v):
        return z3.Select(self.heap.get(st, ("val", v.t.name(), v.t.k, v.t.v)), v.z)

    def set_dom(self, st, v, d):
        k = ("dom", v.t.name(), v.t.k)
        self.heap.set(st, k, z3.Store(self.heap.get(st, k), v.z, d))

    def set_card(self, st, v, n):
        k = ("card", v.t.name())
        self.heap.set(st, k, z3.Store(self.heap.get(st, k), v.z, n))

    def set_dvals(self, st, v, a):
        k = ("val", v.t.name(), v.t.k, v.t.v)
        self.heap.set(st, k, z3.Store(self.heap.get(st, k), v.z, a))

    def list_from_view(self, view, st, t):
        """[elt for ...] as a NEW list: fresh reference, length of the source, elements given pointwise."""
        new = self.alloc(st, t)
        n = view.length
        st.assume(n >= 0)
        i = fresh("li", z3.IntSort())
        s_in = st.copy()
        s_in.assume(z3.And(0 <= i, i < n))
        n_in = len(s_in.pc)
        mk = _mark()
        body = self.coerce(self.guess_tuple(self.vat(view, i, s_in), s_in), t.elt, s_in).z
        extras = s_in.pc[n_in:]
        *extras, body = _skolemize(i, mk, list(extras) + [body])
        arr = fresh("larr", z3.ArraySort(z3.IntSort(), t.elt.sort()))
        st.assume(z3.ForAll([i], z3.Implies(z3.And(0 <= i, i < n), z3.And(*extras, z3.Select(arr, i) == body))))
        self.list_set_arr(st, new, arr)
        self.list_set_len(st, new, n)
        return new

    def unhashable(self, x):
        """A key that contains a list (list display, list comprehension, sorted(...) result) cannot be hashed."""
        if isinstance(x, tuple) and x and x[0] in ("listlit", "listcomp"):
            return True
        if isinstance(x, PyTuple):
            return any(self.unhashable(i) for i in x.items)
        if isinstance(x, Val) and isinstance(x.t, (List, Dict, Set)):
            return True
        return False

    def contains(self, st, c, x):
        """`x in c` as SMT Bool."""
        if isinstance(c, Val) and isinstance(c.t, (Dict, Set)) and self.unhashable(x) and not self.spec:
            self.fork_raise(st, z3.BoolVal(True), "TypeError")
        if isinstance(c, Unknown) or isinstance(x, Unknown):
            return fresh("unk", z3.BoolSort())
        if isinstance(c, Val):
            if isinstance(c.t, (Dict, Set)):
                x = self.coerce(x, c.t.k, st)
                return z3.Select(self.dom(st, c), x.z)
            if isinstance(c.t, Seq):
                x = self.coerce(x, c.t.elt, st)
                if c.parts and c.parts[0] == "items":
                    return z3.Or([x.z == i.z for i in c.parts[1]]) if c.parts[1] else z3.BoolVal(False)
                j = fresh("j", z3.IntSort())
                return z3.Exists([j], z3.And(0 <= j, j < self.seq_len(c), self.seq_nth(c, j).z == x.z))
            if isinstance(c.t, Obj):
                m = self.reg.find_method(c.t.cls, "__contains__")
                if m is not None:
                    outs = list(self.call_contract(m, [c, x], {}, st, None))
                else:
                    from .calls import MIXINS
                    outs = list(MIXINS["__contains__"](self, c, [x], {}, st, None))
                if len(outs) != 1:
                    raise Untranslatable("`in` on object forks")
                return self.truth(outs[0][0], st)
            if isinstance(c.t, List):
                x = self.coerce(x, c.t.elt, st)
                j = fresh("j", z3.IntSort())
                return z3.Exists([j], z3.And(0 <= j, j < self.list_len(st, c), self.list_at_raw(st, c, j).z == x.z))
        if isinstance(c, PyTuple):
            c2 = self.guess_tuple(c, st)
            if isinstance(c2, Val):
                return self.contains(st, c2, x)
        if isinstance(c, View) and getattr(c, "values_of", None) is not None:
            d = c.values_of
            x = self.coerce(x, d.t.v, st)
            k = fresh("k", d.t.k.sort())
            return z3.Exists([k], z3.And(z3.Select(self.dom(st, d), k), z3.Select(self.dvals(st, d), k) == x.z))
        if isinstance(c, View) and c.elt_t is not None:
            x = self.coerce(x, c.elt_t, st)
            j = fresh("j", z3.IntSort())
            return z3.Exists([j], z3.And(0 <= j, j < c.length, self.coerce(c.at(j), c.elt_t, st).z == x.z))
        raise Untranslatable(f"`in` on {c!r}")

    def add_key(self, st, c, x):
        """set.add / dict key insertion (cardinality kept)."""
        if self.unhashable(x) and not self.spec:
            self.fork_raise(st, z3.BoolVal(True), "TypeError")
        x = self.coerce(x, c.t.k, st)
        d = self.dom(st, c)
        was = z3.Select(d, x.z)
        self.set_card(st, c, self.card(st, c) + z3.If(was, 0, 1))
        self.set_dom(st, c, z3.Store(d, x.z, True))
        return x

    def del_key(self, st, c, x):
        x = self.coerce(x, c.t.k, st)
        d = self.dom(st, c)
        was = z3.Select(d, x.z)
        self.set_card(st, c, self.card(st, c) - z3.If(was, 1, 0))
        self.set_dom(st, c, z3.Store(d, x.z, False))
        if isinstance(c.t, Dict) and c.t.counter:
            self.set_dvals(st, c, z3.Store(self.dvals(st, c), x.z, z3.IntVal(0)))
        return x

    def card_axioms(self, st, c):
        """card >= 0 and (card == 0 <=> empty)."""
        ids = getattr(self, "_cur_bound_ids", None)
        k = fresh("k", c.t.k.sort())
        if ids:
            from .calls import _mentions
            if _mentions(c.z, ids):
                # the container depends on a quantified variable: state the axiom for every container of this type
                # (a closed formula), instead of a fact about the bound variable that would leak out of its scope
                ca = self.heap.get(st, ("card", c.t.name()))
                da = self.heap.get(st, ("dom", c.t.name(), c.t.k))
                r = fresh("r", z3.IntSort())
                body = z3.And(z3.Select(ca, r) >= 0, (z3.Select(ca, r) == 0) ==
                              z3.ForAll([k], z3.Not(z3.Select(z3.Select(da, r), k))))
                try:
                    st.assume(z3.ForAll([r], body, patterns=[z3.Select(ca, r)]))
                except z3.Z3Exception:          # the array term is not usable as a pattern (e.g. a store chain)
                    st.assume(z3.ForAll([r], body))
                return
        n = self.card(st, c)
        d = self.dom(st, c)
        st.assume(n >= 0)
        st.assume((n == 0) == z3.ForAll([k], z3.Not(z3.Select(d, k))))

    def get_field(self, st, obj, name):
        ft = self.reg.field_type(obj.t.cls, name)
        if ft is None:
            raise Untranslatable(f"field {obj.t.cls}.{name} has no declared type")
        z = z3.Select(self.heap.get(st, ("fld", obj.t.cls_root if hasattr(obj.t, 'cls_root') else self.field_owner(obj.t.cls, name), name, ft)), obj.z)
        return self.valid_ref(st, Val(ft, z))

    def field_owner(self, cls, name):
        for c in self.reg.mro(cls):
            cs = self.reg.classes.get(c)
            if cs and (name in cs.fields or name in cs.ghost_fields):
                return c
        return cls

    def set_field(self, st, obj, name, v):
        ft = self.reg.field_type(obj.t.cls, name)
        if ft is None:
            raise Untranslatable(f"field {obj.t.cls}.{name} has no declared type")
        v = self.coerce(v, ft, st)
        k = ("fld", self.field_owner(obj.t.cls, name), name, ft)
        self.heap.set(st, k, z3.Store(self.heap.get(st, k), obj.z, v.z))

    # ------------------------------------------------------------------ views
    def view_of(self, v, st):
        """An iterable value as an indexable View (snapshot of the current state)."""
        if isinstance(v, View):
            return v
        if isinstance(v, MemView):
            # an iterable known only through membership: an enumeration of unknown length, order and multiplicity,
            # every element of which satisfies the membership predicate
            n = fresh("mv_len", z3.IntSort())
            st.assume(n >= 0)
            f = z3.Function(str(fresh("mv_at", z3.IntSort())), z3.IntSort(), v.elt_t.sort())

            def at(i, v=v, f=f, n=n):
                tgt = self.view_st if self.view_st is not None else st
                tgt.assume(z3.Implies(z3.And(0 <= i, i < n), v.pred(f(i))))
                return self.valid_ref(tgt, Val(v.elt_t, f(i)))
            return View(n, at, v.elt_t)
        if isinstance(v, Unknown) or (self.lenient and (isinstance(v, BoundMethod) or (
                isinstance(v, Val) and isinstance(v.t, Opaque) and v.t.nm == "Any"))):
            n = fresh("unk_len", z3.IntSort())
            st.assume(n >= 0)
            return View(n, lambda i: Unknown("elem"), None)
        if isinstance(v, PyTuple):
            items = v.items
            if not items:
                return View(z3.IntVal(0), lambda i: (_ for _ in ()).throw(Untranslatable("empty tuple")), None)
            v2 = self.guess_tuple(v, st)
            if isinstance(v2, Val) and isinstance(v2.t, Seq):
                return self.view_of(v2, st)
            raise Untranslatable("iteration over heterogeneous tuple")
        if isinstance(v, Val):
            t = v.t
            if isinstance(t, Seq):
                w = View(self.seq_len(v), lambda i, v=v: self.seq_nth(v, i), t.elt)
                w.src = v
                return w
            if isinstance(t, List):
                arr, off, n = self.list_arr(st, v), self.list_off(st, v), self.list_len(st, v)
                st.assume(n >= 0)
                zo = z3.is_int_value(off) and off.as_long() == 0
                return View(n, lambda i: self.valid_ref(st, Val(t.elt, z3.Select(arr, i if zo else off + i))), t.elt)
            if isinstance(t, (Set, Dict)):
                # arbitrary iteration order: a duplicate-free enumeration ks of the key set
                ks = fresh("keys", z3.SeqSort(t.k.sort()))
                d = self.dom(st, v)
                n = self.card(st, v)
                i, j = fresh("i", z3.IntSort()), fresh("j", z3.IntSort())
                k = fresh("k", t.k.sort())
                st.assume(z3.Length(ks) == n)
                st.assume(n >= 0)
                st.assume(z3.ForAll([i], z3.Implies(z3.And(0 <= i, i < n), z3.Select(d, ks[i]))))
                st.assume(z3.ForAll([i, j], z3.Implies(z3.And(0 <= i, i < j, j < n), ks[i] != ks[j])))
                st.assume(z3.ForAll([k], z3.Implies(z3.Select(d, k),
                                                    z3.Exists([i], z3.And(0 <= i, i < n, ks[i] == k)))))
                self.assume_log("A5: set/dict iteration order is an arbitrary duplicate-free enumeration of the keys")
                w = View(n, lambda i: self.valid_ref(st, Val(t.k, ks[i])), t.k, distinct=True)
                w.keys_seq = Val(Seq(t.k), ks)
                w.member_pred = lambda z, d=d: z3.Select(d, z)
                return w
            if isinstance(t, Opt):
                return self.view_of(self.coerce(v, t.elt, st), st)
            if isinstance(t, Obj) and self.reg.classes.get(t.cls) and self.reg.classes[t.cls].iter_delegate:
                return self.view_of(self.get_field(st, v, self.reg.classes[t.cls].iter_delegate), st)
            if isinstance(t, Obj):
                c = self.reg.find_method(t.cls, "__iter__")
                if c is not None and c.yields:
                    return self.call_generator_view(c, [v], {}, st, None)
            if isinstance(t, Obj) and self.lenient:
                n = fresh("nit", z3.IntSort())
                st.assume(n >= 0)
                self.assume_log(f"lenient: iteration over a {t.cls} object yields untracked values")
                return View(n, lambda i: Unknown("element of an untracked iterable"), None)
        raise Untranslatable(f"not iterable: {v!r}")

    def entails(self, st, z, ms=300):
        """Cheap semantic test `pc |= z` used only to simplify encodings (never to discharge obligations)."""
        zs = simp(z)
        if z3.is_true(zs):
            return True
        if z3.is_false(zs):
            return False
        sol = z3.Solver()
        sol.set("timeout", ms)
        sol.set("rlimit", 400000)       # deterministic resource bound: the wall-clock timeout alone is not always honoured
        for h in st.pc:
            if not z3.is_quantifier(h) and not _has_quantifier(h):
                sol.add(h)
        sol.add(z3.Not(zs))
        try:
            return sol.check() == z3.unsat
        except z3.Z3Exception:
            return False

    def vat(self, view, i, st):
        """Element i of a view; facts known about the element are assumed in st."""
        saved = self.view_st
        self.view_st = st
        try:
            return view.at(i)
        finally:
            self.view_st = saved

    def seq_nth(self, v, i):
        """Index a Seq value, pushing the index through its known structure."""
        p = v.parts
        if p:
            if p[0] == "items":
                items = p[1]
                if isinstance(i, int) or z3.is_int_value(i):
                    ii = i if isinstance(i, int) else i.as_long()
                    if 0 <= ii < len(items):
                        return items[ii]
                if items:
                    z = items[-1].z
                    for k in range(len(items) - 2, -1, -1):
                        z = z3.If(i == k, items[k].z, z)
                    return Val(v.t.elt, z)
            if p[0] == "cons":    # (x,) + tail
                x, tail = p[1], p[2]
                return Val(v.t.elt, z3.If(i == 0, x.z, self.seq_nth(tail, i - 1).z))
            if p[0] == "slice":   # base[a:]
                base, a = p[1], p[2]
                return self.seq_nth(base, i + a)
            if p[0] == "slice2":   # base[a:b]
                return self.seq_nth(p[1], i + p[2])
            if p[0] == "concat":
                a, b = p[1], p[2]
                la = self.seq_len(a)
                return Val(v.t.elt, z3.If(i < la, self.seq_nth(a, i).z, self.seq_nth(b, i - la).z))
            if p[0] == "map":
                return p[1](i)
        return Val(v.t.elt, v.z[i])

    def seq_len(self, v):
        p = v.parts
        if p:
            if p[0] == "items":
                return z3.IntVal(len(p[1]))
            if p[0] == "cons":
                return 1 + self.seq_len(p[2])
            if p[0] == "slice":
                return self.seq_len(p[1]) - p[2]
            if p[0] == "slice2":
                return p[3]
            if p[0] == "concat":
                return self.seq_len(p[1]) + self.seq_len(p[2])
            if p[0] == "map":
                return p[2]
        return z3.Length(v.z)

    def materialise(self, view, st, elt_t=None):
        """View -> Seq value (fresh sequence constant constrained pointwise)."""
        et = elt_t or view.elt_t
        if et is None:
            raise Untranslatable("sequence of unknown element type")
        n = view.length
        ns = simp(n)
        if z3.is_int_value(ns) and ns.as_long() <= 6:
            items = [self.coerce(self.guess_tuple(view.at(z3.IntVal(k)), st), et, st) for k in range(ns.as_long())]
            return self.seq_of_items(items, Seq(et))
        mi = getattr(view, "mapinfo", None)
        if mi is not None:
            import hashlib
            key, src, caps = mi
            nm = "map_" + hashlib.md5((key + et.name() + src.t.name()).encode()).hexdigest()[:10]
            f = z3.Function(nm, src.z.sort(), *[c[1].z.sort() for c in caps], z3.SeqSort(et.sort()))
            r = f(src.z, *[c[1].z for c in caps])
        else:
            r = fresh("seq", z3.SeqSort(et.sort()))
        i = fresh("i", z3.IntSort())
        s_in = st.copy()
        s_in.assume(z3.And(0 <= i, i < n))
        mk = _mark()
        body = self.coerce(self.guess_tuple(self.vat(view, i, s_in), s_in), et, s_in).z
        extras = s_in.pc[len(st.pc) + 1:]
        *extras, body = _skolemize(i, mk, list(extras) + [body])
        st.assume(z3.Length(r) == n)
        st.assume(z3.ForAll([i], z3.Implies(z3.And(0 <= i, i < n), z3.And(*extras, r[i] == body))))
        at = view.at
        return Val(Seq(et), r, parts=("map", lambda j: self.coerce(self.guess_tuple(at(j), st), et, st), n))

    # ------------------------------------------------------------------ name lookup
    def lookup(self, name, st):
        if name in st.env:
            return st.env[name]
        if name in st.ghost:
            return st.ghost[name]
        if name == "result" and self.spec and getattr(self, "spec_result", None) is not None:
            return self.spec_result
        if name in ("True", "False"):
            return bool_val(name == "True")
        if name in EXC_PARENTS or name in ("Exception", "BaseException"):
            return PyConst(("exc", name))
        q = self.src.resolve_global(self.module, name)
        if q is not None:
            return q
        if name in BUILTIN_NAMES:
            return PyConst(("builtin", name))
        raise Untranslatable(f"unknown name {name}")

    # ------------------------------------------------------------------ expressions
    def ev1(self, e, st):
        """Evaluate an expression that must have exactly one normal outcome."""
        outs = list(self.ev(e, st))
        if len(outs) != 1:
            raise Untranslatable(f"expression forks into {len(outs)} normal paths: {ast.unparse(e)[:60]}")
        return outs[0]

    def ev(self, e, st):
        """Generator of (value, state) for each normal evaluation path; raising paths go to self.raise_buf."""
        m = getattr(self, "ev_" + type(e).__name__, None)
        if m is None:
            raise Untranslatable(f"expression {type(e).__name__}: {ast.unparse(e)[:60]}")
        yield from m(e, st)

    def ev_Constant(self, e, st):
        v = e.value
        if v is None:
            yield none_val(), st
        elif isinstance(v, bool):
            yield bool_val(v), st
        elif isinstance(v, int):
            yield int_val(v), st
        elif isinstance(v, str):
            yield PyConst(v), st
        elif isinstance(v, float):
            yield PyConst(v), st
        else:
            raise Untranslatable(f"constant {v!r}")

    def ev_Name(self, e, st):
        yield self.lookup(e.id, st), st

    def ev_Tuple(self, e, st):
        def rec(idx, acc, s):
            if idx == len(e.elts):
                yield PyTuple(acc), s
                return
            el = e.elts[idx]
            if isinstance(el, ast.Starred):
                raise Untranslatable("starred tuple element")
            # the expected type of the whole tuple gives the expected type of each element (empty containers need one)
            self.expect_type = want.elt if isinstance(want, Seq) else (
                want.elts[idx] if isinstance(want, Tup) and idx < len(want.elts) else None)
            try:
                outs = list(self.ev(el, s))
            finally:
                self.expect_type = want
            for v, s2 in outs:
                yield from rec(idx + 1, acc + [v], s2)
        want = getattr(self, "expect_type", None)
        if isinstance(want, Opt):
            want = want.elt
        yield from rec(0, [], st)

    def ev_List(self, e, st):
        for tup, s in self.ev_Tuple(e, st):
            yield ("listlit", tup), s

    def ev_Dict(self, e, st):
        """A dict display with string keys (JSON-like dictionaries): Dict(Str, Any), values not tracked."""
        want = getattr(self, "expect_type", None)
        t = want if isinstance(want, Dict) else Dict(Str, Opaque("Any"))
        d = self.alloc(st, t)
        s = st
        for k, v in zip(e.keys, e.values):
            if k is None:
                raise Untranslatable("dict display with ** unpacking")
            kv, s = self.ev1(k, s)
            vv, s = self.ev1(v, s)
            key = self.add_key(s, d, kv)
            self.set_dvals(s, d, z3.Store(self.dvals(s, d), key.z, self.coerce(vv, t.v, s).z))
        yield d, s

    def ev_Set(self, e, st):
        for tup, s in self.ev_Tuple(e, st):
            yield ("setlit", tup), s

    def ev_JoinedStr(self, e, st):
        yield PyConst("<fstring>"), st

    def ev_Attribute(self, e, st):
        for obj, s in self.ev(e.value, st):
            yield self.attr(obj, e.attr, s, e), s

    def attr(self, obj, name, st, node=None):
        if isinstance(obj, Unknown):
            return Unknown("attr")
        if isinstance(obj, Val):
            t = obj.t
            if isinstance(t, Obj):
                if self.reg.is_property(t.cls, name):
                    c = self.reg.find_method(t.cls, name)
                    if c is None:
                        raise Untranslatable(f"property {t.cls}.{name} has no contract")
                    outs = list(self.call_contract(c, [obj], {}, st, node))
                    if len(outs) != 1:
                        raise Untranslatable("property with several outcomes")
                    return outs[0][0]
                if self.reg.field_type(t.cls, name) is not None:
                    return self.get_field(st, obj, name)
                if self.lenient and self.reg.find_method(t.cls, name) is None and name not in self.c.pure_calls:
                    return Unknown(f"undeclared attribute {t.cls}.{name}")
                return BoundMethod(obj, name)
            if isinstance(t, Opaque) and (t.nm, name) in self.reg.opaque_attrs:
                rt = self.reg.opaque_attrs[(t.nm, name)]
                f = z3.Function(f"attr_{t.nm}_{name}", t.sort(), rt.sort())
                return Val(rt, f(obj.z))
            if isinstance(t, Opt) and isinstance(t.elt, Tup) and t.elt.names and name in t.elt.names:
                return self.attr(self.coerce(obj, t.elt, st), name, st, node)
            if isinstance(t, Tup) and t.names and name in t.names:
                i = t.names.index(name)
                return self.valid_ref(st, Val(t.elts[i], t.proj(obj.z, i)))
            if isinstance(t, Tup) and (t.nm, name) in self.reg.tuple_props:
                fnode, _ = self.src.find_in(self.reg.tuple_props[(t.nm, name)], f"{t.nm}.{name}")
                body = [b for b in fnode.body if not (isinstance(b, ast.Expr) and isinstance(b.value, ast.Constant))]
                if len(body) != 1 or not isinstance(body[0], ast.Return) or body[0].value is None:
                    raise Untranslatable(f"property {t.nm}.{name} is not a one-line `return <expr>`")
                s2 = State({"self": obj}, st.heap, st.pc, st.next_ref, st.ghost, st.labels)
                return self.ev1(body[0].value, s2)[0]
            return BoundMethod(obj, name)
        if isinstance(obj, tuple) and obj and obj[0] == "super":
            return BoundMethod(obj, name)
        if isinstance(obj, (PyTuple,)):
            return BoundMethod(obj, name)
        if isinstance(obj, tuple) and obj and obj[0] == "listlit":
            return BoundMethod(obj, name)
        if isinstance(obj, PyConst):
            v = obj.v
            if isinstance(v, tuple) and v and v[0] in ("module", "builtin", "dotted"):
                base = v[1] if v[0] != "module" else v[1].split(".")[-1]
                return PyConst(("dotted", f"{base}.{name}"))
            return PyConst(("attr", obj.v, name))
        if isinstance(obj, FuncRef) and obj.qual in self.reg.enums and name in self.reg.enums[obj.qual][0]:
            members, et = self.reg.enums[obj.qual]
            mk = z3.Function(f"enum_{et.nm}", z3.IntSort(), et.sort())
            od = z3.Function(f"enum_ord_{et.nm}", et.sort(), z3.IntSort())
            k = members.index(name)
            st.assume(od(mk(k)) == k)           # members are pairwise distinct
            return Val(et, mk(k))
        if isinstance(obj, FuncRef):
            # a class-level constant `Class.NAME = <expr>` of the current module: its real defining expression
            for n_ in getattr(self.module, "body", []):
                if isinstance(n_, ast.ClassDef) and n_.name == obj.qual:
                    for b_ in n_.body:
                        if isinstance(b_, ast.Assign) and len(b_.targets) == 1 and isinstance(b_.targets[0], ast.Name) \
                                and b_.targets[0].id == name:
                            return self.ev1(b_.value, State({}, st.heap, st.pc, st.next_ref, st.ghost, st.labels))[0]
            return FuncRef(obj.qual + "." + name)
        if self.lenient and isinstance(obj, BoundMethod):
            return Unknown(f"attribute of an untracked attribute ({obj.name}.{name})")
        raise Untranslatable(f"attribute {name} of {obj!r}")

    # -- operators
    def ev_BoolOp(self, e, st):
        is_and = isinstance(e.op, ast.And)

        def rec(idx, s):
            for v, s1 in self.ev(e.values[idx], s):
                if idx == len(e.values) - 1:
                    yield v, s1
                    continue
                tv = simp(self.truth(v, s1))
                go_on = tv if is_and else z3.Not(tv)
                # short circuit: the rest is evaluated only under go_on
                if z3.is_true(simp(go_on)):
                    yield from rec(idx + 1, s1)
                    continue
                if z3.is_false(simp(go_on)):
                    yield v, s1
                    continue
                s_stop = s1.copy()
                s_stop.assume(z3.Not(go_on))
                s_go = s1.copy()
                s_go.assume(go_on)
                n0 = len(s_go.pc)
                rest = list(rec(idx + 1, s_go))
                # pure rest (state unchanged apart from pc): merge into one value, written back into s1 in place
                if len(rest) == 1 and self.same_heap(rest[0][1], s1) and isinstance(v, Val) and v.t == Bool \
                        and isinstance(rest[0][0], Val) and rest[0][0].t == Bool:
                    rv, rs = rest[0]
                    extra = rs.pc[n0:]
                    # assumptions made while evaluating the rest hold only under go_on: guard them
                    for x in extra:
                        # in contract expressions every fact produced by evaluation is an unconditional
                        # well-formedness fact (valid references, definitions of fresh symbols)
                        s1.assume(x if self.spec else z3.Implies(go_on, x))
                    z = z3.And(tv, rv.z) if is_and else z3.Or(tv, rv.z)
                    yield bool_val(z), s1
                else:
                    if isinstance(v, (Unknown, BoundMethod)) and is_and:
                        # `u and ...` stopping at an untracked falsy u: only its truth value (False) is known
                        yield bool_val(z3.BoolVal(False)), s_stop
                    else:
                        yield v, s_stop
                    yield from rest
        yield from rec(0, st)

    def same_heap(self, a, b):
        ini = self.heap.initial
        for k in set(a.heap) | set(b.heap):
            x, y = a.heap.get(k, ini.get(k)), b.heap.get(k, ini.get(k))
            if x is None or y is None or not x.eq(y):
                return False
        return True

    def raise_pending_since(self, s):
        return False

    def ev_UnaryOp(self, e, st):
        for v, s in self.ev(e.operand, st):
            if isinstance(e.op, ast.Not):
                yield bool_val(z3.Not(self.truth(v, s))), s
            elif isinstance(e.op, ast.USub):
                v = self.as_int(v, s)
                yield int_val(-v.z), s
            else:
                raise Untranslatable("unary op")

    def as_int(self, v, st):
        if isinstance(v, Unknown):
            return Val(Int, fresh("unk", z3.IntSort()))
        if isinstance(v, Val):
            if v.t == Int:
                return v
            if v.t == Bool:
                return Val(Int, z3.If(v.z, 1, 0))
            if isinstance(v.t, Opt) and v.t.elt == Int:
                return self.coerce(v, Int, st)
        raise Untranslatable(f"expected int, got {v!r}")

    def ev_BinOp(self, e, st):
        for l, s1 in self.ev(e.left, st):
            for r, s2 in self.ev(e.right, s1):
                yield self.binop(e.op, l, r, s2), s2

    def binop(self, op, l, r, st):
        if isinstance(l, Unknown) or isinstance(r, Unknown):
            return Unknown("binop")
        if isinstance(op, ast.Mult) and isinstance(l, tuple) and l and l[0] == "listlit" and len(l[1].items) == 1:
            # [x] * n : a new list of n copies of x
            want = getattr(self, "expect_type", None)
            x = l[1].items[0]
            if not isinstance(want, List):
                x = self.guess_tuple(x, st)
                want = List(x.t)
            x = self.coerce(x, want.elt, st)
            n = self.as_int(r, st).z
            lst = self.alloc(st, want)
            self.list_set_arr(st, lst, z3.K(z3.IntSort(), x.z))
            self.list_set_len(st, lst, z3.If(n > 0, n, 0))
            return lst
        # sequence concatenation
        from .core import View as _View
        if isinstance(op, ast.Add) and (isinstance(l, _View) or isinstance(r, _View)):
            want = getattr(self, "expect_type", None)
            other = r if isinstance(l, _View) else l
            t = want if isinstance(want, Seq) else (other.t if isinstance(other, Val) and isinstance(other.t, Seq) else None)
            if t is None:
                raise Untranslatable("concatenation of generators of unknown element type")
            if isinstance(l, _View):
                l = self.materialise(l, st, t.elt)
            if isinstance(r, _View):
                r = self.materialise(r, st, t.elt)
        lt = l.t if isinstance(l, Val) else None
        rt = r.t if isinstance(r, Val) else None
        if isinstance(op, ast.Add) and (isinstance(l, PyTuple) or isinstance(lt, Seq)) \
                and (isinstance(r, PyTuple) or isinstance(rt, Seq)):
            if isinstance(l, PyTuple) and isinstance(r, PyTuple):
                return PyTuple(l.items + r.items)
            t = lt if isinstance(lt, Seq) else rt
            if isinstance(l, PyTuple) and not l.items:
                return r
            if isinstance(r, PyTuple) and not r.items:
                return l
            a, b = self.coerce(l, t, st), self.coerce(r, t, st)
            if a.parts and a.parts[0] == "items" and len(a.parts[1]) == 1:
                return Val(t, z3.Concat(a.z, b.z), parts=("cons", a.parts[1][0], b))
            if t.elt.mutable and not self.spec:
                # a sequence of references: name the result and state the concatenation pointwise with a pattern on its own
                # positions, so that quantified facts about the elements of either operand are found by e-matching
                cat = fresh("cat", a.z.sort())
                i = fresh("ci", z3.IntSort())
                la, lb = z3.Length(a.z), z3.Length(b.z)
                st.assume(cat == z3.Concat(a.z, b.z))
                st.assume(z3.Length(cat) == la + lb)
                st.assume(z3.ForAll([i], z3.Implies(z3.And(0 <= i, i < la), cat[i] == a.z[i]), patterns=[cat[i]]))
                st.assume(z3.ForAll([i], z3.Implies(z3.And(la <= i, i < la + lb), cat[i] == b.z[i - la]), patterns=[cat[i]]))
                return Val(t, cat, parts=("concat", a, b))
            return Val(t, z3.Concat(a.z, b.z), parts=("concat", a, b))
        for x in (l, r):
            if isinstance(x, Val) and isinstance(x.t, Opaque) and x.t.nm == "Expr":
                # symbolic algebra values: operators are uninterpreted functions (the algebra is external, A3)
                a = self.coerce(l, x.t, st) if not (isinstance(l, Val) and l.t == x.t) else l
                b = self.coerce(r, x.t, st) if not (isinstance(r, Val) and r.t == x.t) else r
                f = z3.Function(f"expr_{type(op).__name__}", x.t.sort(), x.t.sort(), x.t.sort())
                return Val(x.t, f(a.z, b.z))
        if any(isinstance(x, PyConst) and isinstance(x.v, float) for x in (l, r)) or isinstance(op, ast.Div):
            return Unknown("float arithmetic")
        if any(isinstance(x, PyConst) and isinstance(x.v, str) for x in (l, r)) or \
                any(isinstance(x, Val) and isinstance(x.t, Opaque) and x.t.nm in ("StrT", "Float") for x in (l, r)):
            return Unknown("string/float value")
        a, b = self.as_int(l, st), self.as_int(r, st)
        if isinstance(op, ast.Add):
            return int_val(a.z + b.z)
        if isinstance(op, ast.Sub):
            return int_val(a.z - b.z)
        if isinstance(op, ast.Mult):
            return int_val(a.z * b.z)
        if isinstance(op, (ast.FloorDiv, ast.Mod)):
            if not self.spec:
                self.fork_raise(st, b.z == 0, "ZeroDivisionError")
            # Python floor semantics; SMT div/mod are Euclidean: they agree for positive divisors
            c = -b.z
            q = z3.If(b.z > 0, a.z / b.z, z3.If(a.z % c == 0, -(a.z / c), -(a.z / c) - 1))
            if isinstance(op, ast.FloorDiv):
                return int_val(q)
            return int_val(a.z - b.z * q)
        if self.lenient:
            return Unknown(f"operator {type(op).__name__}")
        raise Untranslatable(f"binary operator {type(op).__name__}")

    def fork_raise(self, st, cond, exc):
        """Fork an exceptional path under `cond`; the normal path continues with not cond."""
        c = simp(cond)
        if z3.is_false(c):
            return
        if self.spec:
            return          # contract expressions are assumed well defined; never constrain the state from them
        if self.muted:
            st.assume(z3.Not(c))
            return
        s2 = st.copy()
        s2.assume(c)
        o = Outcome("raise", s2, exc=exc)
        o.site = getattr(self, "cur_site", None)
        self.raise_buf.append(o)
        st.assume(z3.Not(c))

    def ev_Compare(self, e, st):
        def rec(idx, left, acc, s):
            if idx == len(e.ops):
                yield bool_val(z3.And(*acc) if len(acc) > 1 else acc[0]), s
                return
            for r, s2 in self.ev(e.comparators[idx], s):
                z = self.compare(e.ops[idx], left, r, s2)
                yield from rec(idx + 1, r, acc + [z], s2)
        for l, s1 in self.ev(e.left, st):
            yield from rec(0, l, [], s1)

    def compare(self, op, l, r, st):
        if isinstance(l, Unknown) or isinstance(r, Unknown):
            return fresh("unk", z3.BoolSort())
        if isinstance(op, (ast.In, ast.NotIn)):
            z = self.contains(st, r, l)
            return z if isinstance(op, ast.In) else z3.Not(z)
        if isinstance(op, (ast.Is, ast.IsNot, ast.Eq, ast.NotEq)):
            z = self.equal(l, r, st, identity=isinstance(op, (ast.Is, ast.IsNot)))
            return z if isinstance(op, (ast.Is, ast.Eq)) else z3.Not(z)
        a, b = self.as_int(l, st), self.as_int(r, st)
        return {ast.Lt: a.z < b.z, ast.LtE: a.z <= b.z, ast.Gt: a.z > b.z, ast.GtE: a.z >= b.z}[type(op)]

    def equal(self, l, r, st, identity=False):
        if isinstance(l, Unknown) or isinstance(r, Unknown):
            return fresh("unk", z3.BoolSort())
        if isinstance(l, PyTuple) and isinstance(r, PyTuple):
            if len(l.items) != len(r.items):
                return z3.BoolVal(False)
            if not l.items:
                return z3.BoolVal(True)
            return z3.And(*[self.equal(a, b, st) for a, b in zip(l.items, r.items)])
        if isinstance(l, PyTuple) and isinstance(r, Val):
            l = self.coerce(l, r.t if not isinstance(r.t, Opt) else r.t.elt, st)
        if isinstance(r, PyTuple) and isinstance(l, Val):
            r = self.coerce(r, l.t if not isinstance(l.t, Opt) else l.t.elt, st)
        if isinstance(l, tuple) and l and l[0] == "listlit" and isinstance(r, Val) and isinstance(r.t, Seq):
            return z3.BoolVal(False)        # a list never equals a tuple
        if isinstance(r, tuple) and r and r[0] == "listlit" and isinstance(l, Val) and isinstance(l.t, Seq):
            return z3.BoolVal(False)
        if isinstance(l, PyConst) and isinstance(r, PyConst):
            return z3.BoolVal(l.v == r.v)
        if isinstance(l, PyConst) and isinstance(l.v, str) and isinstance(r, Val) and r.t == Str:
            return z3.StringVal(l.v) == r.z
        if isinstance(r, PyConst) and isinstance(r.v, str) and isinstance(l, Val) and l.t == Str:
            return l.z == z3.StringVal(r.v)
        if isinstance(l, Val) and isinstance(r, Val):
            if l.t == r.t:
                if l.t == NoneT:
                    return z3.BoolVal(True)
                if l.t.mutable and not identity:
                    if isinstance(l.t, Obj):
                        return l.z == r.z if (identity or self.spec) else self.obj_eq(l, r, st)
                    return self.container_eq(l, r, st)
                return l.z == r.z
            if l.t == NoneT and isinstance(r.t, Opt):
                return r.t.is_none(r.z)
            if r.t == NoneT and isinstance(l.t, Opt):
                return l.t.is_none(l.z)
            if l.t == NoneT or r.t == NoneT:
                return z3.BoolVal(False)
            if isinstance(l.t, Opt) and l.t.elt == r.t:
                return l.z == l.t.some(r.z)
            if isinstance(r.t, Opt) and r.t.elt == l.t:
                return r.z == r.t.some(l.z)
            if {l.t, r.t} == {Int, Bool}:
                return self.as_int(l, st).z == self.as_int(r, st).z
            if (isinstance(l.t, Fun) and r.t == Int) or (isinstance(r.t, Fun) and l.t == Int):
                return l.z == r.z          # the value of a provider is its identity
            if isinstance(l.t, Seq) and isinstance(r.t, Tup) or isinstance(l.t, Tup) and isinstance(r.t, Seq):
                a = self.coerce(l, r.t, st) if isinstance(r.t, Seq) else l
                b = self.coerce(r, l.t, st) if isinstance(l.t, Seq) else r
                return a.z == b.z
        raise Untranslatable(f"equality between {l!r} and {r!r}")

    def obj_eq(self, l, r, st):
        raise Untranslatable("== on objects without a modelled __eq__")

    def container_eq(self, l, r, st):
        t = l.t
        if isinstance(t, List):
            i = fresh("i", z3.IntSort())
            n = self.list_len(st, l)
            return z3.And(n == self.list_len(st, r),
                          z3.ForAll([i], z3.Implies(z3.And(0 <= i, i < n),
                                                    self.list_at_raw(st, l, i).z == self.list_at_raw(st, r, i).z)))
        if isinstance(t, Set):
            return self.dom(st, l) == self.dom(st, r)
        if isinstance(t, Dict):
            k = fresh("k", t.k.sort())
            dl, dr = self.dom(st, l), self.dom(st, r)
            return z3.And(dl == dr, z3.ForAll([k], z3.Implies(z3.Select(dl, k), z3.Select(self.dvals(st, l), k)
                                                              == z3.Select(self.dvals(st, r), k))))
        raise Untranslatable("container equality")

    def ev_IfExp(self, e, st):
        for c, s in self.ev(e.test, st):
            tv = simp(self.truth(c, s))
            if z3.is_true(tv):
                yield from self.ev(e.body, s)
                continue
            if z3.is_false(tv):
                yield from self.ev(e.orelse, s)
                continue
            s_t, s_f = s.copy(), s.copy()
            s_t.assume(tv)
            s_f.assume(z3.Not(tv))
            outs_t, outs_f = list(self.ev(e.body, s_t)), list(self.ev(e.orelse, s_f))
            if len(outs_t) == 1 and len(outs_f) == 1 and self.same_heap(outs_t[0][1], s) \
                    and self.same_heap(outs_f[0][1], s):
                (a, sa), (b, sb) = outs_t[0], outs_f[0]
                m = self.merge_vals(tv, a, b, s)
                if m is not None:
                    if self.spec:
                        s.pc = s.pc + sa.pc[len(s.pc) + 1:] + sb.pc[len(s.pc) + 1:]
                    else:
                        s.pc = s.pc + [z3.Implies(tv, x) for x in sa.pc[len(s.pc) + 1:]] \
                            + [z3.Implies(z3.Not(tv), x) for x in sb.pc[len(s.pc) + 1:]]
                    yield m, s
                    continue
            yield from outs_t
            yield from outs_f

    def merge_vals(self, c, a, b, st):
        if isinstance(a, Unknown) or isinstance(b, Unknown):
            return Unknown("merge")
        try:
            if isinstance(a, Val) and isinstance(b, Val):
                if a.t == b.t:
                    return Val(a.t, z3.If(c, a.z, b.z))
                if a.t == NoneT and not isinstance(b.t, Opt):
                    t = Opt(b.t)
                    return Val(t, z3.If(c, t.none(), t.some(b.z)))
                if b.t == NoneT and not isinstance(a.t, Opt):
                    t = Opt(a.t)
                    return Val(t, z3.If(c, t.some(a.z), t.none()))
                if isinstance(a.t, Opt):
                    return Val(a.t, z3.If(c, a.z, self.coerce(b, a.t, st).z))
                if isinstance(b.t, Opt):
                    return Val(b.t, z3.If(c, self.coerce(a, b.t, st).z, b.z))
        except Untranslatable:
            return None
        return None

    # -- subscripts
    def ev_Subscript(self, e, st):
        for base, s1 in self.ev(e.value, st):
            if isinstance(base, FuncRef) and (base.qual in self.reg.classes or base.qual + ".__init__" in self.reg.contracts
                                              or any(k.startswith(base.qual + ".") for k in self.reg.contracts)):
                # Generic alias `Class[T1, T2]`: the type parameters are annotations (dropped by the extraction)
                yield base, s1
                continue
            if isinstance(e.slice, ast.Slice):
                yield from self.ev_slice(base, e.slice, s1)
                continue
            for idx, s2 in self.ev(e.slice, s1):
                if not self.spec:
                    self.cur_site = self.site(e)
                yield self.index(base, idx, s2, e), s2

    def ev_slice(self, base, sl, st):
        if sl.step is not None:
            raise Untranslatable("slice step")
        los = [(None, st)] if sl.lower is None else list(self.ev(sl.lower, st))
        for lo, s1 in los:
            his = [(None, s1)] if sl.upper is None else list(self.ev(sl.upper, s1))
            for hi, s2 in his:
                yield self.slice(base, lo, hi, s2), s2

    def slice(self, base, lo, hi, st):
        if isinstance(base, Unknown) or isinstance(lo, Unknown) or isinstance(hi, Unknown):
            return Unknown("slice")
        if isinstance(base, PyTuple):
            def lit(x):
                if x is None:
                    return None
                z = simp(self.as_int(x, st).z)
                return z.as_long() if z3.is_int_value(z) else "sym"
            a, b = lit(lo), lit(hi)
            if a != "sym" and b != "sym":
                return PyTuple(base.items[a:b])
            base = self.guess_tuple(base, st)
        if isinstance(base, Val) and isinstance(base.t, Opt):
            base = self.coerce(base, base.t.elt, st)
        if isinstance(base, Val) and isinstance(base.t, Seq):
            n = self.seq_len(base)
            def norm(x, default):
                if x is None:
                    return default
                z = self.as_int(x, st).z
                if self.entails(st, z3.And(z >= 0, z <= n)):
                    return z
                z = z3.If(z < 0, z + n, z)
                return z3.If(z < 0, 0, z3.If(z > n, n, z))
            a = simp(norm(lo, z3.IntVal(0)))
            if hi is None:
                if z3.is_int_value(a) and a.as_long() == 0:
                    return base
                if base.parts and base.parts[0] == "items" and z3.is_int_value(a):
                    return self.seq_of_items(base.parts[1][a.as_long():], base.t)
                lo_z = self.as_int(lo, st).z
                inb = self.entails(st, z3.And(lo_z >= 0, lo_z <= n))
                return Val(base.t, z3.SubSeq(base.z, a, n - a), parts=("slice", base, lo_z) if inb else None)
            b = norm(hi, n)
            ln = b - a if self.entails(st, b >= a) else z3.If(b > a, b - a, 0)
            return Val(base.t, z3.SubSeq(base.z, a, ln), parts=("slice2", base, a, ln))
        raise Untranslatable(f"slice of {base!r}")

    def index(self, base, idx, st, node=None):
        if isinstance(base, Unknown) or isinstance(idx, Unknown):
            return Unknown("index")
        if isinstance(base, tuple) and base and base[0] == "listlit":
            base = base[1]
        if isinstance(base, PyTuple):
            z = simp(self.as_int(idx, st).z)
            if z3.is_int_value(z):
                k = z.as_long()
                if -len(base.items) <= k < len(base.items):
                    return base.items[k]
                self.fork_raise(st, z3.BoolVal(True), "IndexError")
            base = self.guess_tuple(base, st)
        if isinstance(base, Val):
            t = base.t
            if isinstance(t, Seq):
                i = self.as_int(idx, st).z
                n = self.seq_len(base)
                self.fork_raise(st, z3.Or(i < -n, i >= n), "IndexError")
                isimp = simp(i)
                if self.spec:
                    return self.seq_nth(base, i)
                if z3.is_int_value(isimp) and isimp.as_long() >= 0 or z3.is_true(simp(i >= 0)):
                    return self.valid_ref(st, self.seq_nth(base, i))
                return self.valid_ref(st, self.seq_nth(base, z3.If(i < 0, i + n, i)))
            if isinstance(t, Tup):
                z = simp(self.as_int(idx, st).z)
                if not z3.is_int_value(z):
                    raise Untranslatable("symbolic index into fixed tuple")
                k = z.as_long()
                if k < 0:
                    k += len(t.elts)
                return self.valid_ref(st, Val(t.elts[k], t.proj(base.z, k)))
            if isinstance(t, List):
                i = self.as_int(idx, st).z
                n = self.list_len(st, base)
                st.assume(n >= 0)
                self.fork_raise(st, z3.Or(i < -n, i >= n), "IndexError")
                if self.spec:
                    return self.list_at_raw(st, base, i)
                return self.list_at_raw(st, base, z3.If(i < 0, i + n, i))
            if isinstance(t, Dict):
                k = self.coerce(idx, t.k, st)
                if t.counter:
                    return Val(Int, z3.If(z3.Select(self.dom(st, base), k.z), z3.Select(self.dvals(st, base), k.z), 0))
                present = z3.Select(self.dom(st, base), k.z)
                if getattr(t, "default", False):
                    if self.spec:
                        return self.valid_ref(st, Val(t.v, z3.Select(self.dvals(st, base), k.z)))
                    # defaultdict: a missing key is inserted with a freshly built empty container
                    if self.entails(st, present):
                        return self.valid_ref(st, Val(t.v, z3.Select(self.dvals(st, base), k.z)))
                    new = self.alloc(st, t.v)
                    cur = z3.Select(self.dvals(st, base), k.z)
                    val = z3.If(present, cur, new.z)
                    self.set_dvals(st, base, z3.Store(self.dvals(st, base), k.z, val))
                    self.add_key(st, base, k)
                    return self.valid_ref(st, Val(t.v, val))
                self.fork_raise(st, z3.Not(present), "KeyError")
                return self.valid_ref(st, Val(t.v, z3.Select(self.dvals(st, base), k.z)))
            if isinstance(t, Obj):
                c = self.reg.find_method(t.cls, "__getitem__")
                if c is not None:
                    outs = list(self.call_contract(c, [base, idx], {}, st, node))
                    if len(outs) != 1:
                        raise Untranslatable("__getitem__ with several outcomes")
                    return outs[0][0]
            if isinstance(t, Opt):
                inner = self.coerce(base, t.elt, st)
                return self.index(inner, idx, st, node)
            if isinstance(t, Map):
                k = self.coerce(idx, t.k, st)
                return Val(t.v, z3.Select(base.z, k.z))
            if isinstance(t, Opaque) and (t.nm, "__getitem__") in self.reg.opaque_methods:
                ats, rt = self.reg.opaque_methods[(t.nm, "__getitem__")]
                k = self.coerce(self.guess_tuple(self.iter_value(idx, st), st) if not isinstance(idx, View)
                                else self.materialise(idx, st, ats[0].elt), ats[0], st)
                f = z3.Function(f"meth_{t.nm}___getitem__", t.sort(), ats[0].sort(), rt.sort())
                return Val(rt, f(base.z, k.z))
        raise Untranslatable(f"subscript of {base!r}")

    # -- comprehensions
    def comp_view(self, e, st, want_filter_ok=False):
        """(view over the generator's source, element function, filter function) for a single-`for` comprehension."""
        if len(e.generators) != 1:
            raise Untranslatable("nested comprehension")
        g = e.generators[0]
        src, s1 = self.ev1(g.iter, st)
        view = self.view_of(self.iter_value(src, s1), s1)
        elt_node = e.elt if not isinstance(e, ast.DictComp) else None

        def bind(i, s):
            x = self.vat(view, i, s)
            env = dict(s.env)
            s2 = State(env, s.heap, s.pc, s.next_ref, s.ghost, s.labels)
            self.assign_target(g.target, x, s2)
            env["_ci"] = int_val(i)          # ghost: position in the comprehension's source (for proof hints)
            return s2

        return view, bind, g.ifs, s1

    def quant_over(self, e, st, mk, is_all):
        """all(...)/any(...) over a generator expression -> quantified formula."""
        view, bind, ifs, s1 = self.comp_view(e, st)
        i = fresh("q", z3.IntSort())
        s_in = s1.copy()
        s_in.assume(z3.And(0 <= i, i < view.length))
        n_in = len(s_in.pc)
        mark = int(str(fresh("mark", z3.BoolSort())).split("!")[-1])
        s2 = bind(i, s_in)
        conds = []
        for c in ifs:
            cv, s2 = self.ev1(c, s2)
            conds.append(self.truth(cv, s2))
        for c in conds:
            s2.assume(c)
        body, s3 = self.ev1(e.elt, s2)
        bz = self.truth(body, s3)
        extra = [x for x in s3.pc[n_in:] if not any(x.eq(c) for c in conds)]
        guard = z3.And(0 <= i, i < view.length, *conds)
        # values created while evaluating the element for position i (results of contracted calls, ...) are functions of i:
        # replace each such constant c by F_c(i); the facts defining them hold for every position (assumed once, outside)
        if extra:
            subst = []
            for c in _consts_of(extra + [bz] + conds):
                nm = c.decl().name()
                if "!" in nm and nm.rsplit("!", 1)[1].isdigit() and int(nm.rsplit("!", 1)[1]) > mark:
                    subst.append((c, z3.Function(nm + "_at", z3.IntSort(), c.sort())(i)))
            if subst:
                extra = [z3.substitute(x, *subst) for x in extra]
                bz = z3.substitute(bz, *subst)
                guard = z3.substitute(guard, *subst)
            s1.assume(z3.ForAll([i], z3.Implies(guard, z3.And(*extra))))
        if is_all:
            z = z3.ForAll([i], z3.Implies(guard, bz))
        else:
            z = z3.Exists([i], z3.And(guard, bz))
        st.pc[:] = s1.pc
        st.heap = s1.heap
        return bool_val(z), st

    def ev_GeneratorExp(self, e, st):
        if self.cur_contract is not None and getattr(self.cur_contract, "comp_loops", None) and not self.spec:
            sid = self.site(e)
            if sid.split("/")[-1].startswith("listcomp#"):
                k = int(sid.split("#")[-1])
                if k in self.cur_contract.comp_loops:
                    yield from self.comp_as_loop(e, st, k)      # executed eagerly as a contracted loop (A4)
                    return
        yield self.comp_value(e, st), st

    def comp_as_loop(self, e, st, k):
        """Execute [elt for target in iter] as an explicit loop with the contract's loop invariant (side effects)."""
        spec = self.cur_contract.comp_loops[k]
        name = f"_comp{k}"
        t = self.cur_contract.locals.get(name)
        if not isinstance(t, List):
            raise ContractError(f"comp_loops[{k}] needs locals['{name}'] = List(...)")
        g = e.generators[0]
        if len(e.generators) != 1 or g.ifs:
            raise Untranslatable("comprehension executed as a loop must have one `for` and no `if`")
        st.env[name] = self.alloc(st, t)
        body = ast.Expr(ast.Call(ast.Attribute(ast.Name(name, ast.Load()), "append", ast.Load()), [e.elt], []))
        loop = ast.For(target=g.target, iter=g.iter, body=[body], orelse=[])
        ast.copy_location(loop, e)
        ast.fix_missing_locations(loop)
        loop._pyvc_comp = k
        outs = self.ex_block([loop], st)
        for o in outs:
            if o.kind == "normal":
                yield o.state.env[name], o.state
            elif o.kind == "raise":
                self.raise_buf.append(o)
            else:
                raise Untranslatable("comprehension loop left abnormally")

    def ev_ListComp(self, e, st):
        if self.cur_contract is not None and getattr(self.cur_contract, "comp_loops", None) and not self.spec:
            sid = self.site(e)
            if sid.split("/")[-1].startswith("listcomp#"):
                k = int(sid.split("#")[-1])
                if k in self.cur_contract.comp_loops:
                    yield from self.comp_as_loop(e, st, k)
                    return
        want = getattr(self, "expect_type", None)
        if isinstance(e.elt, ast.List) and len(e.generators) == 1 and not e.generators[0].ifs \
                and isinstance(want, List) and isinstance(want.elt, List):
            yield self.bulk_list_of_lists(e, st, want), st
            return
        yield ("listcomp", self.comp_value(e, st)), st

    def bulk_list_of_lists(self, e, st, want):
        """[[a, b, ..] for x in src]: len(src) freshly allocated inner lists (bulk allocation)."""
        inner_t = want.elt
        view, bind, ifs, s1 = self.comp_view(e, st)
        st.pc[:] = s1.pc
        n = view.length
        st.assume(n >= 0)
        base = st.next_ref
        st.next_ref = st.next_ref + n
        k = len(e.elt.elts)
        r = fresh("r", z3.IntSort())
        inr = z3.And(base <= r, r < base + n)
        nm = inner_t.name()
        len_arr = self.heap.get(st, ("len", nm))
        new_len = fresh("blen", len_arr.sort())
        st.assume(z3.ForAll([r], z3.Select(new_len, r) == z3.If(inr, k, z3.Select(len_arr, r))))
        self.heap.set(st, ("len", nm), new_len)
        el_arr = self.heap.get(st, ("elem", nm, inner_t.elt))
        new_el = fresh("belem", el_arr.sort())
        st.assume(z3.ForAll([r], z3.Implies(z3.Not(inr), z3.Select(new_el, r) == z3.Select(el_arr, r))))
        for j, item in enumerate(e.elt.elts):
            i = fresh("bi", z3.IntSort())
            s2 = bind(i, st)
            v, _ = self.ev1(item, s2)
            vz = self.coerce(v, inner_t.elt, st).z
            st.assume(z3.ForAll([i], z3.Implies(z3.And(0 <= i, i < n), z3.Select(z3.Select(new_el, base + i), j) == vz)))
        self.heap.set(st, ("elem", nm, inner_t.elt), new_el)
        outer = self.alloc(st, want)
        self.list_extend(st, outer, View(n, lambda i: Val(inner_t, base + i), inner_t, distinct=True))
        return outer

    def ev_SetComp(self, e, st):
        """{x for x in src if cond}: a new set given by its membership predicate (elt must be the loop variable)."""
        g = e.generators[0]
        if len(e.generators) != 1 or not (isinstance(e.elt, ast.Name) and isinstance(g.target, ast.Name)
                                          and e.elt.id == g.target.id):
            raise Untranslatable("set comprehension (only {x for x in src if cond} is supported)")
        src, s1 = self.ev1(g.iter, st)
        src = self.iter_value(src, s1)
        if isinstance(src, Val) and isinstance(src.t, (Set, Dict)):
            et = src.t.k
            base = lambda x, src=src: z3.Select(self.dom(s1, src), x)
        elif isinstance(src, MemView):
            et, base = src.elt_t, src.pred
        else:
            v = self.view_of(src, s1)
            et = v.elt_t

            def base(x, v=v):
                ii = fresh("i", z3.IntSort())
                return z3.Exists([ii], z3.And(0 <= ii, ii < v.length, self.coerce(v.at(ii), et, s1).z == x))
        k = fresh("k", et.sort())
        env = dict(s1.env)
        env[g.target.id] = Val(et, k)
        s2 = State(env, s1.heap, s1.pc, s1.next_ref, s1.ghost, s1.labels)
        conds = []
        for c in g.ifs:
            cv, s2 = self.ev1(c, s2)
            conds.append(self.truth(cv, s2))
        new = self.alloc(s1, Set(et))
        d = fresh("dom", self.dom(s1, new).sort())
        s1.assume(z3.ForAll([k], z3.Select(d, k) == z3.And(base(k), *conds)))
        self.set_dom(s1, new, d)
        c = fresh("card", z3.IntSort())
        s1.assume(c >= 0)
        self.set_card(s1, new, c)
        yield new, s1

    def ev_DictComp(self, e, st):
        try:
            done = False
            for r in self.dictcomp_precise(e, st):
                done = True
                yield r
            if done:
                return
        except Untranslatable:
            if not self.lenient:
                raise
        if not self.lenient:
            raise Untranslatable("dict comprehension")
        # the source is evaluated (calls inside it are seen); the resulting dictionary is not tracked
        for g in e.generators:
            for _ in self.ev(g.iter, st):
                pass
        yield Unknown("dict comprehension"), st

    def dictcomp_precise(self, e, st):
        """{key: value for ... in source if cond}: a fresh dictionary characterised by quantified axioms.

        * source `D.items()` / `D` with the comprehension's key being D's own key variable: for every k,
              k in new  <=>  k in D and cond(k),      new[k] == value(k)
        * otherwise (any single-`for` source, by position i):
              cond(i)  ==>  key(i) in new;     k in new  ==>  exists i. cond(i) and key(i) == k and new[k] == value(i)
          (which of several positions with the same key provides the value is left open).
        Exceptions raised while evaluating key/value/cond for an arbitrary element are forked as usual."""
        if len(e.generators) != 1:
            raise Untranslatable("nested dict comprehension")
        g = e.generators[0]
        it = g.iter
        same_key = None
        if isinstance(it, ast.Call) and isinstance(it.func, ast.Attribute) and it.func.attr == "items" and not it.args \
                and isinstance(g.target, ast.Tuple) and len(g.target.elts) == 2 \
                and all(isinstance(x, ast.Name) for x in g.target.elts) \
                and isinstance(e.key, ast.Name) and e.key.id == g.target.elts[0].id:
            same_key = it.func.value
        if same_key is not None:
            for dv, s1 in self.ev(same_key, st):
                if not (isinstance(dv, Val) and isinstance(dv.t, Dict)):
                    raise Untranslatable("dict comprehension over a non-dictionary")
                b = fresh("dk", dv.t.k.sort())
                guard0 = z3.Select(self.dom(s1, dv), b)
                s_in = s1.copy()
                s_in.assume(guard0)
                n_in = len(s_in.pc)
                mark = int(str(fresh("mark", z3.BoolSort())).split("!")[-1])
                env = dict(s_in.env)
                s2 = State(env, s_in.heap, s_in.pc, s_in.next_ref, s_in.ghost, s_in.labels)
                env[g.target.elts[0].id] = Val(dv.t.k, b)
                env[g.target.elts[1].id] = self.valid_ref(s2, Val(dv.t.v, z3.Select(self.dvals(s2, dv), b)))
                yield self._dictcomp_finish(e, g, s1, s2, n_in, mark, b, guard0, Val(dv.t.k, b), True)
            return
        src, s1 = self.ev1(g.iter, st)
        if isinstance(g.target, ast.Name) and isinstance(e.key, ast.Name) and e.key.id == g.target.id \
                and isinstance(src, Val) and isinstance(src.t, (Seq, Set)):
            # {k: value(k) for k in source if cond(k)}: the key is the element itself -- characterise by key
            et = src.t.elt if isinstance(src.t, Seq) else src.t.k
            b = fresh("dk", et.sort())
            guard0 = self.contains(s1, src, Val(et, b))
            s_in = s1.copy()
            s_in.assume(guard0)
            n_in = len(s_in.pc)
            mark = int(str(fresh("mark", z3.BoolSort())).split("!")[-1])
            env = dict(s_in.env)
            s2 = State(env, s_in.heap, s_in.pc, s_in.next_ref, s_in.ghost, s_in.labels)
            env[g.target.id] = Val(et, b)
            yield self._dictcomp_finish(e, g, s1, s2, n_in, mark, b, guard0, Val(et, b), True)
            return
        view = self.view_of(self.iter_value(src, s1), s1)
        b = fresh("di", z3.IntSort())
        guard0 = z3.And(0 <= b, b < view.length)
        s_in = s1.copy()
        s_in.assume(guard0)
        n_in = len(s_in.pc)
        mark = int(str(fresh("mark", z3.BoolSort())).split("!")[-1])
        env = dict(s_in.env)
        s2 = State(env, s_in.heap, s_in.pc, s_in.next_ref, s_in.ghost, s_in.labels)
        self.assign_target(g.target, self.vat(view, b, s2), s2)
        yield self._dictcomp_finish(e, g, s1, s2, n_in, mark, b, guard0, None, False)

    def _dictcomp_finish(self, e, g, s1, s2, n_in, mark, b, guard0, keyval, unique):
        conds = []
        for c in g.ifs:
            cv, s2 = self.ev1(c, s2)
            cz = self.truth(cv, s2)
            conds.append(cz)
            s2.assume(cz)
        kv, s2 = self.ev1(e.key, s2)
        vv, s2 = self.ev1(e.value, s2)
        want0 = getattr(self, "expect_type", None)
        if isinstance(want0, Dict) and not want0.counter and not want0.default:
            kv, vv = self.coerce(kv, want0.k, s2), self.coerce(vv, want0.v, s2)     # typed by the assignment target
        kv, vv = self.guess_tuple(kv, s2), self.guess_tuple(vv, s2)
        if isinstance(vv, PyConst) and isinstance(vv.v, int) and not isinstance(vv.v, bool):
            vv = int_val(vv.v)
        if isinstance(kv, PyConst) and isinstance(kv.v, str):
            kv = Val(Str, z3.StringVal(kv.v))
        if not (isinstance(kv, Val) and isinstance(vv, Val)):
            raise Untranslatable("dict comprehension with untracked key or value")
        t = Dict(kv.t, vv.t)
        want = getattr(self, "expect_type", None)
        if isinstance(want, Dict) and not want.counter and not want.default:
            kv, vv, t = self.coerce(kv, want.k, s2), self.coerce(vv, want.v, s2), want
        extra = [x for x in s2.pc[n_in:] if not any(x.eq(c) for c in conds)]
        kz, vz = kv.z, vv.z
        subst = []
        for c in _consts_of(extra + [kz, vz] + conds):
            nm = c.decl().name()
            if "!" in nm and nm.rsplit("!", 1)[1].isdigit() and int(nm.rsplit("!", 1)[1]) > mark:
                subst.append((c, z3.Function(nm + "_at", b.sort(), c.sort())(b)))
        if subst:
            extra = [z3.substitute(x, *subst) for x in extra]
            conds = [z3.substitute(x, *subst) for x in conds]
            kz, vz = z3.substitute(kz, *subst), z3.substitute(vz, *subst)
        guard = z3.And(guard0, *conds)
        if extra:
            s1.assume(z3.ForAll([b], z3.Implies(guard, z3.And(*extra))))
        st = s1
        r = self.new_ref(st)
        new = Val(t, r)
        self.unshared(st, new)
        domr = fresh("dcdom", z3.ArraySort(t.k.sort(), z3.BoolSort()))
        valr = fresh("dcval", z3.ArraySort(t.k.sort(), t.v.sort()))
        card = fresh("dccard", z3.IntSort())
        k2 = fresh("k", t.k.sort())
        if unique:
            st.assume(z3.ForAll([b], z3.Select(domr, b) == guard))
            st.assume(z3.ForAll([b], z3.Implies(guard, z3.Select(valr, b) == vz)))
        else:
            st.assume(z3.ForAll([b], z3.Implies(guard, z3.Select(domr, kz))))
            st.assume(z3.ForAll([k2], z3.Implies(z3.Select(domr, k2),
                                                 z3.Exists([b], z3.And(guard, kz == k2, z3.Select(valr, k2) == vz)))))
        st.assume(card >= 0)
        kd, kval, kc = ("dom", t.name(), t.k), ("val", t.name(), t.k, t.v), ("card", t.name())
        self.heap.set(st, kd, z3.Store(self.heap.get(st, kd), r, domr))
        self.heap.set(st, kval, z3.Store(self.heap.get(st, kval), r, valr))
        self.heap.set(st, kc, z3.Store(self.heap.get(st, kc), r, card))
        self.assume_log("A5: a dict comprehension is characterised by its key set and values (which duplicate key wins is open)")
        return new, st

    def comp_value(self, e, st):
        """A comprehension without filter as a lazily indexed View (elementwise function of the source)."""
        view, bind, ifs, s1 = self.comp_view(e, st)
        st.pc[:] = s1.pc
        st.heap = s1.heap
        if ifs:
            drop = self.drop_index_pattern(e, st)
            if drop is None:
                return ("filtered", view, bind, ifs, e.elt)
            # (x for i, x in enumerate(src) if i != c): the source with position c removed
            c = drop
            n = view.length
            inr = z3.And(0 <= c, c < n)

            def at_drop(j):
                k = z3.If(z3.And(inr, j >= c), j + 1, j)
                self.muted += 1
                try:
                    s2 = bind(k, st)
                    v, _ = self.ev1(e.elt, s2)
                finally:
                    self.muted -= 1
                return v
            return View(z3.If(inr, n - 1, n), at_drop, None)
        if any(isinstance(x, ast.Call) for x in ast.walk(e.elt)) and not self.spec and not self.muted:
            # generators are treated eagerly (A4): evaluate the element once for an arbitrary index so that the
            # obligations and provider events of the calls inside it are generated
            i = fresh("ci", z3.IntSort())
            s_in = st.copy()
            s_in.assume(z3.And(0 <= i, i < view.length))
            s2 = bind(i, s_in)
            for _ in self.ev(e.elt, s2):
                pass
            if "$trace" in s2.ghost:
                st.ghost = dict(st.ghost)
                st.ghost["$trace"] = s2.ghost["$trace"]

        def at(i):
            self.muted += 1
            try:
                # facts about the element belong to the state of whoever reads it
                s2 = bind(i, self.view_st if self.view_st is not None else st)
                v, s3 = self.ev1(e.elt, s2)
            finally:
                self.muted -= 1
            return v
        out = View(view.length, at, None)
        out.mapinfo = self.map_info(e, view, st)
        return out

    PURE_FUNCS = {"len", "sum", "abs", "min", "max", "tuple", "int", "bool"}

    def map_info(self, e, view, st):
        """If the comprehension is a pure elementwise function of an immutable source sequence, describe it so that
        equal sources give equal results (an uninterpreted map function instead of a fresh constant)."""
        src = getattr(view, "src", None)
        if src is None:
            return None
        g = e.generators[0]
        tnames = {x.id for x in ast.walk(g.target) if isinstance(x, ast.Name)}
        caps = []
        for x in ast.walk(e.elt):
            if isinstance(x, ast.Name) and x.id not in tnames and x.id not in self.PURE_FUNCS:
                v = st.env.get(x.id, st.ghost.get(x.id))
                if not (isinstance(v, Val) and v.t != NoneT and not isinstance(v.t, Obj)):
                    return None
                if x.id not in [c[0] for c in caps]:
                    caps.append((x.id, v))
                    if isinstance(v.t, Dict):       # the map also depends on the current contents
                        caps.append((x.id + "$dom", Val(Int, self.dom(st, v))))
                        caps.append((x.id + "$val", Val(Int, self.dvals(st, v))))
                    elif isinstance(v.t, List):
                        caps.append((x.id + "$arr", Val(Int, self.list_arr(st, v))))
                        caps.append((x.id + "$len", Val(Int, self.list_len(st, v))))
                    elif isinstance(v.t, Set):
                        caps.append((x.id + "$dom", Val(Int, self.dom(st, v))))
            if isinstance(x, ast.Call):
                f = x.func
                ok = (isinstance(f, ast.Name) and f.id in self.PURE_FUNCS) or \
                     (isinstance(f, ast.Attribute) and isinstance(f.value, ast.Name) and f.value.id in tnames)
                if not ok:
                    return None
            if isinstance(x, (ast.Attribute,)) and not (isinstance(x.value, ast.Name) and x.value.id in tnames):
                return None
            if isinstance(x, ast.Subscript) and isinstance(x.ctx, ast.Store):
                return None
            if isinstance(x, (ast.Lambda, ast.GeneratorExp, ast.ListComp, ast.Yield, ast.Await)):
                return None
        key = ast.dump(e.elt) + "|" + ast.dump(g.target)
        return (key, src, caps)

    def drop_index_pattern(self, e, st):
        g = e.generators[0]
        if not (isinstance(g.iter, ast.Call) and isinstance(g.iter.func, ast.Name) and g.iter.func.id == "enumerate"
                and len(g.iter.args) == 1 and isinstance(g.target, ast.Tuple) and len(g.target.elts) == 2
                and isinstance(g.target.elts[0], ast.Name) and len(g.ifs) == 1):
            return None
        c = g.ifs[0]
        if not (isinstance(c, ast.Compare) and len(c.ops) == 1 and isinstance(c.ops[0], ast.NotEq)
                and isinstance(c.left, ast.Name) and c.left.id == g.target.elts[0].id):
            return None
        tnames = {x.id for x in ast.walk(g.target) if isinstance(x, ast.Name)}
        if any(isinstance(x, ast.Name) and x.id in tnames for x in ast.walk(c.comparators[0])):
            return None
        v, _ = self.ev1(c.comparators[0], st)
        return self.as_int(v, st).z

    def iter_value(self, v, st):
        """Normalise things one can iterate over into Val / View / PyTuple."""
        if isinstance(v, tuple) and v:
            if v[0] == "listlit":
                return v[1]
            if v[0] == "listcomp":
                return v[1]
        return v

    # -- calls
    def ev_Call(self, e, st):
        yield from self.call(e, st)

    def ev_Lambda(self, e, st):
        yield Closure(e, dict(st.env)), st

    def ev_Starred(self, e, st):
        raise Untranslatable("starred expression")

    def ev_NamedExpr(self, e, st):
        for v, s in self.ev(e.value, st):
            s.env[e.target.id] = v
            yield v, s

    def type_from_node(self, node):
        """A type written in a contract expression (e.g. the default of a quantifier lambda)."""
        return ty.parse_type(ast.unparse(node), self.aliases)

    @property
    def is_generator(self):
        if not hasattr(self, "_is_gen"):
            self._is_gen = any(isinstance(x, (ast.Yield, ast.YieldFrom)) for x in ast.walk(self.fn))
        return self._is_gen


BUILTIN_NAMES = {"len", "sum", "all", "any", "max", "min", "sorted", "tuple", "list", "set", "range", "enumerate",
                 "zip", "isinstance", "bool", "abs", "next", "map", "int", "iter", "cast", "deque", "Counter",
                 "defaultdict", "dict", "frozenset", "reversed", "str", "print", "divmod", "Deque", "Info",
                 "filter", "id", "repr", "type", "hasattr", "getattr", "super", "float", "round", "issubclass",
                 "import_module", "setattr", "callable", "vars", "dir"}


def _bind():
    from . import calls, stmts
    for mod in (calls, stmts):
        for k, v in vars(mod).items():
            if callable(v) and getattr(v, "__module__", None) == mod.__name__ and not k.startswith("_") \
                    and k not in ("parse_expr", "simp", "site_ids"):
                setattr(Executor, k, v)


_bind()
