"""python3-vt -m pyvc.apicheck <file.smt2> <seconds>: decide one SMT-LIB query with the z3 Python API's default (strategic) solver.

Run in a process of its own by pyvc.solve so that the parent can kill it at a hard wall-clock limit (the API's own timeout, rlimit
and interrupt are not always honoured).  The default API solver and the z3 command line choose different strategies for the same
text; a few obligations are decided at once by the one and not at all by the other, so both are tried.  Prints sat/unsat/unknown."""
import sys

import z3


def main():
    path, secs = sys.argv[1], float(sys.argv[2])
    s = z3.Solver()
    s.from_string(open(path).read())
    # no "timeout" parameter on purpose: setting one switches the combined solver to its incremental core, which is the strategy
    # the command line already tried; the parent enforces the limit
    r = s.check()
    print(str(r))


if __name__ == "__main__":
    main()
