"""Discharge obligations: z3 command line (3 s), z3 Python API in a child process (3 s), cvc5 (10 s), z3 command line (long budget); every solver runs in a process of its own with a hard wall-clock limit.

unsat from either solver = discharged; sat (z3 model) = failed; anything else = undecided.
"""
import os
import sys
import re
import subprocess
import tempfile
import time
import z3

CVC5 = "/usr/bin/cvc5"


def to_smt2(hyps, goal):
    s = z3.Solver()
    for h in hyps:
        s.add(h)
    s.add(z3.Not(goal))
    txt = s.to_smt2()
    txt = re.sub(r"\(\(_ ([A-Za-z_][\w!]*) 0\)", r"(\1", txt)      # z3 prints recursive functions as (_ f 0)
    txt = txt.replace("(set-info :status unknown)", "")
    txt = txt.replace("seq.nth_i", "seq.nth").replace("seq.nth_u", "seq.nth")   # z3-internal forms of seq.nth
    return "(set-logic ALL)\n" + txt


def model_value(m, z):
    try:
        v = m.eval(z, model_completion=True)
        if z3.is_int_value(v):
            return v.as_long()
        if z3.is_true(v):
            return True
        if z3.is_false(v):
            return False
        if z3.is_seq(v):
            # try element-wise evaluation
            n = m.eval(z3.Length(z), model_completion=True)
            if z3.is_int_value(n) and n.as_long() <= 64:
                return [model_value(m, z[i]) for i in range(n.as_long())]
        return str(v)
    except Exception as e:  # pragma: no cover
        return f"<{e}>"


def discharge(ob, timeout_s=10.0, use_cvc5=True, want_model=True):
    t0 = time.time()
    if getattr(ob, "trivial", False):
        return {"status": "unsat", "solver": "simplifier", "seconds": 0.0}
    def z3_try(budget):
        s = z3.Solver()
        s.set("timeout", int(budget * 1000))
        for h in ob.hyps:
            s.add(h)
        s.add(z3.Not(ob.goal))
        try:
            return s.check(), s
        except z3.Z3Exception:
            return z3.unknown, s
    first = min(3.0, timeout_s)
    r, s = z3_try(first)
    dt = time.time() - t0
    if r == z3.unsat:
        return {"status": "unsat", "solver": "z3-5.1.0", "seconds": round(dt, 3)}
    res = {"status": "unknown", "solver": "z3-5.1.0", "seconds": round(dt, 3), "reason": ""}
    if r == z3.sat:
        m = s.model()
        res = {"status": "sat", "solver": "z3-5.1.0", "seconds": round(dt, 3)}
        if want_model and ob.inputs:
            res["model"] = {k: model_value(m, v.z) for k, v in ob.inputs.items() if hasattr(v, "z")}
        res["model_txt"] = str(m)[:2000]
        return res
    try:
        res["reason"] = s.reason_unknown()
    except Exception:
        pass
    if use_cvc5:
        t1 = time.time()
        try:
            txt = to_smt2(ob.hyps, ob.goal) + "\n"
            with tempfile.NamedTemporaryFile("w", suffix=".smt2", delete=False) as f:
                f.write(txt)
                path = f.name
            try:
                p = subprocess.run([CVC5, "--strings-exp", f"--tlimit={int(timeout_s * 1000)}", path],
                                   capture_output=True, text=True, timeout=timeout_s + 5)
                out = p.stdout.strip().split("\n")[0] if p.stdout.strip() else ""
            finally:
                os.unlink(path)
            dt2 = time.time() - t1
            if out == "unsat":
                return {"status": "unsat", "solver": "cvc5-1.0.3", "seconds": round(dt + dt2, 3)}
            res["cvc5"] = out or (p.stderr.strip()[:200])
            res["seconds"] = round(dt + dt2, 3)
        except subprocess.TimeoutExpired:
            res["cvc5"] = "timeout"
        except Exception as e:
            res["cvc5"] = f"error {e}"
    if timeout_s > first:
        r, s = z3_try(timeout_s)
        if r == z3.unsat:
            return {"status": "unsat", "solver": "z3-5.1.0", "seconds": round(time.time() - t0, 3)}
        if r == z3.sat:
            m = s.model()
            out = {"status": "sat", "solver": "z3-5.1.0", "seconds": round(time.time() - t0, 3), "model_txt": str(m)[:2000]}
            if want_model and ob.inputs:
                out["model"] = {k: model_value(m, v.z) for k, v in ob.inputs.items() if hasattr(v, "z")}
            return out
        res["seconds"] = round(time.time() - t0, 3)
    return res


def check_sat(hyps, timeout_s=5.0):
    """Vacuity guard: the hypotheses must be satisfiable (or at least not refutable)."""
    s = z3.Solver()
    s.set("timeout", int(timeout_s * 1000))
    for h in hyps:
        s.add(h)
    r = s.check()
    return "sat" if r == z3.sat else "unsat" if r == z3.unsat else "unknown"


# ------------------------------------------------------------------ text based discharge (separate processes)
def obligation_text(ob):
    """SMT-LIB text of an obligation (hypotheses + negated goal), with named constants for the inputs."""
    s = z3.Solver()
    for h in ob.hyps:
        s.add(h)
    s.add(z3.Not(ob.goal))
    names = {}
    small = []
    for k, v in (ob.inputs or {}).items():
        if not hasattr(v, "z"):
            continue
        if z3.is_const(v.z) and v.z.decl().kind() == z3.Z3_OP_UNINTERPRETED:
            names[k] = v.z.decl().name()
            c = v.z
        else:
            c = z3.Const("inp!" + k, v.z.sort())
            s.add(c == v.z)
            names[k] = "inp!" + k
        if z3.is_int(c):
            small.append(z3.And(c >= -12, c <= 12))
        elif z3.is_seq(c):
            small.append(z3.Length(c) <= 4)
            if z3.is_int(c[0]):
                i = z3.Int("small!i")
                small.append(z3.ForAll([i], z3.Implies(z3.And(0 <= i, i < z3.Length(c)), z3.And(c[i] >= -12, c[i] <= 12))))
    txt = s.to_smt2()
    core = getattr(ob, "core", None)
    core_txt = None
    if core is not None and len(core) < len(ob.hyps):
        # the same goal from fewer hypotheses (sound to try first: fewer facts, easier instantiation)
        s2 = z3.Solver()
        for h in core:
            s2.add(h)
        s2.add(z3.Not(ob.goal))
        core_txt = s2.to_smt2()
    ob.core_txt = core_txt
    # a second query asking for a small counter-model (used only after the first one was sat)
    small_txt = None
    if small:
        # (a second solver object rather than push/pop: push internalises the assertions, which can exhaust memory on
        # obligations with deeply nested quantifiers; printing needs no internalisation)
        s3 = z3.Solver()
        for a in s.assertions():
            s3.add(a)
        for z in small:
            s3.add(z)
        small_txt = s3.to_smt2()
    return txt, names, small_txt


def hyps_text(hyps):
    s = z3.Solver()
    for h in hyps:
        s.add(h)
    return s.to_smt2()


def _value_py(m, d):
    v = m[d]
    try:
        if z3.is_int_value(v):
            return v.as_long()
        if z3.is_true(v):
            return True
        if z3.is_false(v):
            return False
        if z3.is_seq(v):
            c = z3.Const(d.name(), v.sort())
            n = m.eval(z3.Length(v), model_completion=True)
            if z3.is_int_value(n) and n.as_long() <= 64:
                out = []
                for i in range(n.as_long()):
                    e = m.eval(v[i], model_completion=True)
                    out.append(e.as_long() if z3.is_int_value(e) else str(e))
                return out
        return str(v)
    except Exception:
        return str(v)


def _run_text(txt, budget, want=None, rlimit=None):
    ctx = z3.Context()
    s = z3.Solver(ctx=ctx)
    s.set("timeout", int(budget * 1000))
    if rlimit:
        s.set("rlimit", rlimit)         # deterministic bound: the wall-clock timeout alone is not always honoured
    # watchdog: z3 does not always honour its own timeout (seq/array preprocessing); interrupt the context from a timer
    import threading
    dog = threading.Timer(budget * 1.5 + 5, ctx.interrupt)
    dog.daemon = True
    dog.start()
    try:
        s.from_string(txt)
        r = s.check()
    except z3.Z3Exception as e:
        return "unknown", None, str(e)[:200]
    finally:
        dog.cancel()
    if r == z3.unsat:
        return "unsat", None, ""
    if r == z3.sat:
        model = {}
        try:
            m = s.model()
            byname = {d.name(): d for d in m.decls()}
            for k, nm in (want or {}).items():
                if nm in byname:
                    model[k] = _value_py(m, byname[nm])
            return "sat", {"model": model, "model_txt": str(m)[:1500]}, ""
        except Exception as e:
            return "sat", {"model": {}, "model_txt": f"<model unavailable: {e}>"}, ""
    try:
        why = s.reason_unknown()
    except Exception:
        why = ""
    return "unknown", None, why


def discharge_text(item):
    """item: dict(id, smt2, names, timeout, trivial).  Portfolio: z3 short, cvc5, z3 long."""
    t0 = time.time()
    if item.get("trivial"):
        return {"status": "unsat", "solver": "simplifier", "seconds": 0.0}
    T = item["timeout"]
    first = min(3.0, T)
    # every z3 *decision* runs through the z3 CLI in a process of its own (hard wall-clock limit: the in-process API has been seen
    # to ignore timeout, rlimit and interrupt for a quarter of an hour on a false goal); the API is only asked for the model
    # after the CLI answered `sat`
    if item.get("core_smt2"):
        if check_sat_text(item["core_smt2"], first) == "unsat":
            return {"status": "unsat", "solver": "z3-5.1.0", "seconds": round(time.time() - t0, 3)}
    st, extra, why = check_sat_text(item["smt2"], first), None, ""
    if st == "unsat":
        return {"status": "unsat", "solver": "z3-5.1.0", "seconds": round(time.time() - t0, 3)}
    if st == "sat":
        st_m, extra, why = _run_text(item["smt2"], max(first, 5.0), item.get("names"))
        if st_m != "sat":
            extra = {"model": {}, "model_txt": "<model unavailable from the API within its budget>"}
        if item.get("small_smt2"):
            st2, extra2, _ = _run_text(item["small_smt2"], 3.0, item.get("names"))
            if st2 == "sat":
                extra = dict(extra2, small_model=True)
        return dict({"status": "sat", "solver": "z3-5.1.0", "seconds": round(time.time() - t0, 3)}, **extra)
    if api_check_text(item["smt2"], first) == "unsat":
        return {"status": "unsat", "solver": "z3-5.1.0", "seconds": round(time.time() - t0, 3)}
    res = {"status": "unknown", "solver": "z3-5.1.0", "reason": why}
    if os.environ.get("PYVC_DUMP"):       # debugging aid: keep the undecided query
        with open(os.path.join(os.environ["PYVC_DUMP"], re.sub(r"[^\w.#]", "_", item["id"]) + ".smt2"), "w") as f:
            f.write(item["smt2"])
    try:
        txt = re.sub(r"\(\(_ ([A-Za-z_][\w!]*) 0\)", r"(\1", item["smt2"])
        txt = txt.replace("(set-info :status unknown)", "").replace("seq.nth_i", "seq.nth").replace("seq.nth_u", "seq.nth")
        txt = "(set-logic ALL)\n" + txt
        with tempfile.NamedTemporaryFile("w", suffix=".smt2", delete=False) as f:
            f.write(txt)
            path = f.name
        try:
            budget = min(T, 10.0)
            p = subprocess.run([CVC5, "--strings-exp", f"--tlimit={int(budget * 1000)}", path],
                               capture_output=True, text=True, timeout=budget + 5)
            out = p.stdout.strip().split("\n")[0] if p.stdout.strip() else ""
        finally:
            os.unlink(path)
        if out == "unsat":
            return {"status": "unsat", "solver": "cvc5-1.0.3", "seconds": round(time.time() - t0, 3)}
        res["cvc5"] = out or p.stderr.strip()[:200]
    except subprocess.TimeoutExpired:
        res["cvc5"] = "timeout"
    except Exception as e:
        res["cvc5"] = f"error {e}"
    if T > first:
        # the long attempt runs through the z3 CLI in its own process first: a hard wall-clock limit (the in-process API has been
        # seen to ignore timeout, rlimit and interrupt for many minutes on false goals over quantified hypotheses)
        cli = check_sat_text(item["smt2"], T)
        if cli == "unsat":
            return {"status": "unsat", "solver": "z3-5.1.0", "seconds": round(time.time() - t0, 3)}
        if cli == "unknown":
            res["reason"] = (why or "") + " (z3 CLI: no answer within the long budget)"
            res["seconds"] = round(time.time() - t0, 3)
            return res
        # sat: ask the API for the model (the CLI found one within the budget; same time again, watched)
        st, extra, why = _run_text(item["smt2"], T, item.get("names"))
        if st != "sat":
            st, extra = "sat", {"model": {}, "model_txt": "<model unavailable from the API within its budget>"}
        if st == "sat":
            return dict({"status": "sat", "solver": "z3-5.1.0", "seconds": round(time.time() - t0, 3)}, **extra)
        res["reason"] = why
    res["seconds"] = round(time.time() - t0, 3)
    return res


def api_check_text(txt, timeout_s=3.0):
    """The same query through the z3 Python API's default solver, in a child process killed at the limit (see pyvc/apicheck.py)."""
    import subprocess
    with tempfile.NamedTemporaryFile("w", suffix=".smt2", delete=False) as f:
        f.write(txt)
        path = f.name
    try:
        p = subprocess.run([sys.executable, "-m", "pyvc.apicheck", path, str(timeout_s)], capture_output=True, text=True,
                           timeout=timeout_s + 4, cwd=os.path.dirname(os.path.dirname(os.path.abspath(__file__))))
        out = p.stdout.strip().splitlines()
        return out[-1].strip() if out and out[-1].strip() in ("sat", "unsat") else "unknown"
    except (subprocess.TimeoutExpired, OSError):
        return "unknown"
    finally:
        os.unlink(path)


def check_sat_text(txt, timeout_s=3.0):
    """Satisfiability of a cover query.  Run through the z3 CLI in its own process: a hard wall-clock limit that the
    in-process API cannot guarantee (a sat check over quantified hypotheses can ignore timeout, rlimit and interrupt)."""
    import subprocess
    q = txt if "(check-sat)" in txt else txt + "\n(check-sat)\n"
    try:
        p = subprocess.run(["z3-new", "-smt2", "-in", f"-T:{int(timeout_s) + 2}"], input=q, capture_output=True, text=True,
                           timeout=timeout_s + 6)
    except (subprocess.TimeoutExpired, OSError):
        return "unknown"
    out = p.stdout.strip().splitlines()
    first = out[0].strip() if out else ""
    return first if first in ("sat", "unsat") else "unknown"
