"""Driver: verify the contracted functions serving one or more properties, in parallel, and return plain results."""
import importlib
import json
import multiprocessing as mp
import os
import pkgutil
import sys
import time
import traceback

HERE = os.path.dirname(os.path.abspath(__file__))
ROOT = os.path.dirname(HERE)
if ROOT not in sys.path:
    sys.path.insert(0, ROOT)


def load_contracts():
    from pyvc.dsl import REG
    import contracts
    for m in pkgutil.iter_modules(contracts.__path__):
        importlib.import_module("contracts." + m.name)
    return REG


def verify_one(args):
    """Worker: generate and discharge all obligations of one function (optionally one variant)."""
    qual, timeout_s, repo = args
    vidx = None
    if "@" in qual:
        qual, vidx = qual.split("@")
        vidx = int(vidx)
    t0 = time.time()
    out = {"function": qual, "obligations": [], "covers": [], "error": None, "undecided_reason": None,
           "assumptions": [], "paths": 0, "file": None, "yield_sites": 0}
    try:
        import resource
        import signal
        # a runaway symbolic execution (path or term explosion) must end as "undecided", not take the machine down
        lim = int(os.environ.get("PYVC_MEM_GB", "32")) << 30
        resource.setrlimit(resource.RLIMIT_AS, (lim, lim))

        def _too_long(*_):
            raise TimeoutError("VC generation exceeded its time budget")
        signal.signal(signal.SIGALRM, _too_long)
        signal.alarm(int(os.environ.get("PYVC_GEN_S", "900")))
        import z3
        from pyvc.dsl import REG
        from pyvc.source import SourceIndex
        from pyvc.engine import Executor
        from pyvc.core import Untranslatable, ContractError
        import itertools
        import pyvc.core as _core
        _core._fresh = itertools.count()        # deterministic symbol names per function (stable solver behaviour)
        reg = load_contracts()
        c = reg.contracts[qual]
        if vidx is not None:
            c = reg.variant(c, vidx)
            out["function"] = f"{qual}[{c.variant_name}]"
            c.qual_label = out["function"]
        out["file"] = c.file
        src = SourceIndex(reg, repo)
        try:
            fn, mod, _ = src.find(c)
            ex = Executor(reg, c, fn, mod, src, aliases=getattr(c, "aliases", None))
            obls, covers = ex.run()
            if getattr(c, "complete", None):
                # second pass for the completeness clause (pyvc/stmts.py run): keep only what belongs to it
                ex2 = Executor(reg, c, fn, mod, src, aliases=getattr(c, "aliases", None))
                ex2.complete_mode = True
                obls2, covers2 = ex2.run()
                nb = {k: len(v.invariant) for k, v in c.loops.items()}
                for o in obls2:
                    tail = o.oid.split("/", 1)[1]
                    keep = tail.endswith(".complete") or "lemma:" in tail or "ghost_assert" in tail
                    m = __import__("re").match(r"loop#(\d+)\.inv(\d+)\.", tail)
                    if m and int(m.group(2)) >= nb.get(int(m.group(1)), 0):
                        keep = True
                    if keep:
                        o.oid = o.oid + "@complete"
                        obls.append(o)
                covers += [cv for cv in covers2 if cv[0].endswith("cover.complete")]
                ex.assumption_log |= ex2.assumption_log
        except (Untranslatable, ContractError, MemoryError, TimeoutError) as e:
            signal.alarm(0)
            out["undecided_reason"] = f"{type(e).__name__}: {e}"
            if os.environ.get("PYVC_TRACEBACK"):
                out["undecided_reason"] += "\n" + traceback.format_exc()[-2500:]
            out["wall_s"] = round(time.time() - t0, 3)
            return out
        signal.alarm(0)
        import ast as _ast, hashlib
        h = hashlib.sha1(_ast.dump(fn).encode())
        for q in sorted(ex.inlined_nodes):
            h.update(_ast.dump(ex.inlined_nodes[q]).encode())
        out["source_hash"] = h.hexdigest()[:16]
        out["paths"] = ex.paths
        out["yield_sites"] = ex.yield_sites
        out["assumptions"] = sorted(ex.assumption_log)
        out["lineno"] = fn.lineno
        from pyvc.solve import obligation_text, hyps_text
        for o in obls:
            oid = o.oid if vidx is None else o.oid.replace(c.qual + "/", f"{c.qual}[{c.variant_name}]/", 1)
            item = {"id": oid, "line": o.lineno, "note": o.note, "trivial": bool(getattr(o, "trivial", False)),
                    "timeout": timeout_s}
            if not item["trivial"]:
                item["smt2"], item["names"], item["small_smt2"] = obligation_text(o)
                item["core_smt2"] = getattr(o, "core_txt", None)
            out["obligations"].append(item)
        for cid, hyps in covers:
            out["covers"].append({"id": cid, "smt2": hyps_text(hyps)})
        if c.provider_requires and not getattr(ex, "provider_calls", 0):
            out["undecided_reason"] = "provider discipline stated but no provider call site was reached (vacuous)"
        if c.yields and ex.yield_sites == 0:
            out["undecided_reason"] = "generator contract but no yield site was reached"
    except Exception as e:  # checker error, never a property verdict
        out["error"] = f"{type(e).__name__}: {e}\n{traceback.format_exc()[-1500:]}"
    out["wall_s"] = round(time.time() - t0, 3)
    return out


def verify(props=None, functions=None, timeout_s=10.0, repo=None, procs=None):
    reg = load_contracts()
    quals = []
    for q, c in reg.contracts.items():
        if not c.verify:
            continue
        if functions and q not in functions:
            continue
        if props and not (set(props) & set(c.props)):
            continue
        if c.variants:
            quals.extend(f"{q}@{i}" for i in range(len(c.variants)))
        else:
            quals.append(q)
    repo = repo or os.environ.get("PYVC_REPO", "/repo")
    jobs = [(q, timeout_s, repo) for q in quals]
    procs = procs or int(os.environ.get("PYVC_PROCS", "0")) or min(16, max(1, len(jobs)))
    ctx = mp.get_context("fork")
    from pyvc.solve import discharge_text, check_sat_text
    with ctx.Pool(procs, maxtasksperchild=1) as pool:
        res = pool.map(verify_one, jobs, chunksize=1)
    # phase 2: every obligation is an independent query; discharge all of them 16-wide
    items = [(ri, oi) for ri, r in enumerate(res) for oi in range(len(r["obligations"]))]
    with ctx.Pool(min(int(os.environ.get("PYVC_PROCS", "0")) or 16, max(1, len(items))), maxtasksperchild=50) as pool:
        outs = pool.map(discharge_text, [res[ri]["obligations"][oi] for ri, oi in items], chunksize=1)
        citems = [(ri, ci) for ri, r in enumerate(res) for ci in range(len(r["covers"]))]
        couts = pool.map(_cover, [res[ri]["covers"][ci]["smt2"] for ri, ci in citems], chunksize=1)
    for (ri, oi), o in zip(items, outs):
        it = res[ri]["obligations"][oi]
        o.update({"id": it["id"], "line": it["line"], "note": it["note"]})
        res[ri]["obligations"][oi] = o
    for (ri, ci), stt in zip(citems, couts):
        res[ri]["covers"][ci] = {"id": res[ri]["covers"][ci]["id"], "status": stt}
    # structural (AST) obligations
    from pyvc import structural
    sres = structural.run(props, repo) if not functions else []
    by_fn = {}
    for o in sres:
        by_fn.setdefault(o["function"], []).append(o)
    for fnm, obls in by_fn.items():
        res.append({"function": fnm, "obligations": obls, "covers": [], "error": None, "undecided_reason": None,
                    "assumptions": ["structural obligations are facts about the source text (AST), not behavioural proofs"],
                    "paths": 0, "file": None, "yield_sites": 0, "wall_s": 0.0, "source_hash": None})
    for r in res:
        exits = [c for c in r["covers"] if c["id"].endswith("/exit.cover")]
        r["covers"] = [c for c in r["covers"] if not c["id"].endswith("/exit.cover")]
        if exits:
            ok = any(c["status"] != "unsat" for c in exits)
            r["covers"].append({"id": exits[0]["id"] + "(any exit reachable)", "status": "sat" if ok else "unsat"})
    return res


def _cover(txt):
    from pyvc.solve import check_sat_text
    return check_sat_text(txt, 3.0)


def trusted(props=None):
    reg = load_contracts()
    return [(q, c.trusted_reason) for q, c in reg.contracts.items()
            if not c.verify and (not props or set(props) & set(c.props))]


def main():
    import argparse
    ap = argparse.ArgumentParser()
    ap.add_argument("--props", default="")
    ap.add_argument("--fn", default="")
    ap.add_argument("--timeout", type=float, default=10.0)
    ap.add_argument("--repo", default=None)
    ap.add_argument("-v", action="store_true")
    a = ap.parse_args()
    res = verify([p for p in a.props.split(",") if p] or None, [f for f in a.fn.split(",") if f] or None,
                 a.timeout, a.repo)
    tot = dis = 0
    for r in res:
        if r["error"]:
            print("CHECKER-ERROR", r["function"], r["error"])
        if r["undecided_reason"]:
            print("UNDECIDED", r["function"], r["undecided_reason"])
        for o in r["obligations"]:
            tot += 1
            dis += o["status"] == "unsat"
            if a.v or o["status"] != "unsat":
                print(f'{o["status"]:8s} {o["id"]:70s} {o["solver"]:12s} {o["seconds"]:6.2f} L{o["line"]} '
                      f'{o.get("model", "")} {o.get("cvc5", "")} {o["note"][:60]}')
        for cv in r["covers"]:
            if cv["status"] != "sat":
                print("COVER", cv)
    print(f"{dis}/{tot} obligations discharged over {len(res)} functions")


if __name__ == "__main__":
    main()
