"""Statement execution, loops, function entry/exit for the Executor (bound as Executor methods)."""
import ast
import z3
from . import ty
from .ty import Int, Bool, NoneT, Str, Opt, Seq, Tup, List, Deque, Dict, Set, Obj, Opaque, Fun
from .core import (Unknown, Untranslatable, ContractError, Val, PyConst, PyTuple, BoundMethod, FuncRef, Closure, ProviderCall,
                   View, State, Outcome, Obligation, fresh, none_val, int_val, bool_val, type_heap_keys)
from .calls import parse_expr, simp


# ---------------------------------------------------------------------------------------------- site ids
def site_ids(fnode):
    """Stable ordinals per syntactic kind, in source order."""
    ids, counts = {}, {}
    kinds = {ast.Return: "ret", ast.Raise: "raise", ast.Assert: "assert", ast.Subscript: "sub", ast.Call: "call",
             ast.Yield: "yield", ast.YieldFrom: "yieldfrom", ast.For: "loop", ast.While: "loop", ast.BinOp: "binop",
             ast.Assign: "assign", ast.AugAssign: "assign", ast.AnnAssign: "assign", ast.If: "if", ast.Expr: "expr",
             ast.Try: "try", ast.Delete: "del", ast.ListComp: "listcomp", ast.GeneratorExp: "listcomp"}

    class V(ast.NodeVisitor):
        def generic_visit(self, node):
            k = kinds.get(type(node))
            if k:
                n = counts.get(k, 0)
                counts[k] = n + 1
                ids[id(node)] = (k, n)
            super().generic_visit(node)
    for s in fnode.body:
        V().visit(s)
    return ids


def site(self, node, default="site"):
    ids = self.site_cache.get(id(self.cur_fnode))
    if ids is None:
        ids = self.site_cache[id(self.cur_fnode)] = site_ids(self.cur_fnode)
    k = ids.get(id(node))
    pre = "" if self.cur_fn == self.c.qual else f"inl:{self.cur_fn}/"
    if k is None:
        return pre + default
    return f"{pre}{k[0]}#{k[1]}"


# ---------------------------------------------------------------------------------------------- entry
def declare_param(self, name, t, st):
    v = Val(t, z3.Const(name, t.sort()))
    if t.mutable:
        st.assume(z3.And(v.z >= 0, v.z < st.next_ref))
        if isinstance(t, Dict) and t.v.mutable:
            # well-typed heap: the containers stored in a dictionary parameter are allocated objects of the pre-state
            k = fresh("k", t.k.sort())
            dom, vals = self.dom(st, v), self.dvals(st, v)
            st.assume(z3.ForAll([k], z3.Implies(z3.Select(dom, k), z3.And(0 <= z3.Select(vals, k), z3.Select(vals, k) < st.next_ref))))
    self.inputs[name] = v
    return v


def entry_state(self):
    st = State()
    nr = z3.Int("next_ref0")
    st.next_ref = nr
    st.assume(nr >= 0)
    for n, t in self.c.params.items():
        st.env[n] = self.declare_param(n, t, st)
    for n, t in self.c.ghost.items():
        st.ghost[n] = self.declare_param(n, t, st)
    if self.lenient:
        for a in self.fn.args.posonlyargs + self.fn.args.args + self.fn.args.kwonlyargs:
            if a.arg not in st.env:
                st.env[a.arg] = Unknown(f"undeclared parameter {a.arg}")
    for extra in (self.fn.args.vararg, self.fn.args.kwarg):
        if extra is not None and extra.arg not in st.env:
            st.env[extra.arg] = Unknown("*args/**kwargs")
    return st


def invariants_of(self, st):
    v = st.env.get("self")
    if self.c.self_invariant and isinstance(v, Val) and isinstance(v.t, Obj):
        return self.reg.class_invariants(v.t.cls)
    return []


def run(self):
    """Generate all obligations of this function.  Returns (obligations, covers)."""
    c = self.c
    self.site_cache = {}
    self.cur_fnode = self.fn
    self.cur_contract = c
    self.loop_ctx = {}
    self.handling = []
    st = self.entry_state()
    is_init = c.qual.endswith(".__init__")
    reqs = list(c.requires) + ([] if is_init else self.invariants_of(st))
    for r in reqs:
        st.assume(self.spec_truth(r, st))
    if c.yield_seq:
        if not isinstance(c.returns, Seq):
            raise ContractError("yield_seq needs returns=Seq(elt)")
        st.ghost["yielded"] = Val(c.returns, z3.Empty(c.returns.sort()), parts=("items", []))
    if c.complete and getattr(self, "complete_mode", False):
        # SECOND PASS of a generator with a completeness clause (the first pass verifies everything else and knows nothing
        # about w): an arbitrary value w satisfying `when` must be yielded; `found` records whether it has been.  Only the
        # completeness obligations of this pass are kept (pyvc/run.py), so the assumption on w touches nothing else.
        w = self.fresh_of_type(c.complete["type"], st, c.complete["var"])
        st.ghost[c.complete["var"]] = w
        self.inputs[c.complete["var"]] = w
        for r in c.complete["when"]:
            st.assume(self.spec_truth(r, st))
        st.ghost["found"] = bool_val(z3.BoolVal(False))
        self.covers.append((f"{c.qual}/cover.complete", list(st.pc)))
    self.entry = State(dict(st.env), dict(st.heap), list(st.pc), st.next_ref, dict(st.ghost), {})
    self.old_st = self.entry
    self.covers.append((f"{c.qual}/cover.requires", list(st.pc)))
    body = self.fn.body
    outs = self.ex_block(body, st)
    for o in outs:
        self.check_exit(o)
    return self.obls, self.covers


# ---------------------------------------------------------------------------------------------- exits
def check_exit(self, o):
    c = self.c
    st = o.state
    entry = self.entry
    self.paths += 1
    sid = getattr(o, "site", None) or ("end" if o.kind == "normal" else o.kind)
    if o.kind in ("break", "continue"):
        raise Untranslatable("break/continue outside a loop")
    pre_env = State(dict(entry.env), st.heap, st.pc, st.next_ref, st.ghost, st.labels)
    if o.kind == "raise":
        exc = o.exc
        if any(e == exc for e, _ in c.raises) or exc in c.may_raise:
            self.covers.append((f"{c.qual}/exit.cover", list(st.pc)))
        matched = False
        for e, cond in c.raises:
            if e == exc:
                matched = True
                z = self.spec_truth(cond, State(dict(entry.env), dict(entry.heap), st.pc, entry.next_ref, st.ghost), old=entry)
                self.oblige(f"{sid}.raises.{exc}.only_if", st, z, f"{exc} may be raised only when: {cond}")
        if exc in c.may_raise:
            matched = True
        if not matched:
            self.oblige(f"{sid}.no_exception.{exc}", st, z3.BoolVal(False),
                        f"{exc} escapes but the contract allows only {[e for e, _ in c.raises] + c.may_raise}")
        for k, p in enumerate(c.ensures_raise.get(exc, [])):
            self.oblige(f"{sid}.raise_post{k}", st, self.spec_truth(p, pre_env, old=entry), p)
        return
    # normal exit
    if c.ghost_stmts.get("exit"):
        gs = State(dict(st.env), st.heap, st.pc, st.next_ref, st.ghost, st.labels)
        self.ghost_exec(c.ghost_stmts["exit"], gs)
        st.heap, st.ghost = gs.heap, gs.ghost
    self.covers.append((f"{c.qual}/exit.cover", list(st.pc)))
    if c.complete and getattr(self, "complete_mode", False):
        self.oblige(f"{sid}.complete", st, st.ghost["found"].z,
                    f"every {c.complete['var']} with {' and '.join(c.complete['when'])} has been yielded")
    res = o.value if o.kind == "return" and o.value is not None else none_val()
    if c.yield_seq:
        res = st.ghost["yielded"]
    elif c.returns is not None and c.returns != NoneT and not c.yields and not self.is_generator:
        res = self.coerce(self.iter_to_val(self.guess_tuple(res, st) if isinstance(res, PyTuple)
                                           and not isinstance(c.returns, (Seq, Tup, Opt)) else res, c.returns, st),
                          c.returns, st)
    for e, cond in c.raises:
        z = self.spec_truth(cond, State(dict(entry.env), dict(entry.heap), st.pc, entry.next_ref, st.ghost), old=entry)
        self.oblige(f"{sid}.must_raise.{e}", st, z3.Not(z), f"normal return although {e} is specified when: {cond}")
    posts = list(c.ensures) + self.invariants_of(entry)
    for k, p in enumerate(posts):
        z = self.spec_truth(p, pre_env, old=entry, result=res)
        self.oblige(f"{sid}.post{k}", st, z, p)
    self.check_frame(st, entry, c.modifies, sid, entry.next_ref)


def check_frame(self, st, base, modifies, sid, old_next_ref, env=None):
    """Everything allocated before and not named in `modifies` is unchanged."""
    bs = State(dict(env if env is not None else base.env), dict(base.heap), st.pc, base.next_ref, st.ghost, st.labels)
    locs = [self.loc_of(m, bs) for m in modifies]
    keys = set(st.heap) | set(base.heap)
    for k in sorted(keys, key=str):
        a_end = st.heap.get(k, self.heap.initial.get(k))
        a_beg = base.heap.get(k, self.heap.initial.get(k))
        if a_end is None or a_beg is None or a_end.eq(a_beg):
            continue
        allowed = []
        whole = False
        for loc in locs:
            if loc[0] == "all" and k in self.all_keys_of(loc[1]):
                whole = True
            elif loc[0] == "contents":
                v = loc[1]
                if isinstance(v.t, Obj):
                    if k[0] == "fld" and k[1] in self.reg.mro(v.t.cls):
                        allowed.append(v.z)
                elif k in type_heap_keys(v.t):
                    allowed.append(v.z)
            elif loc[0] == "field":
                _, obj, f = loc
                ft = self.reg.field_type(obj.t.cls, f)
                if k == ("fld", self.field_owner(obj.t.cls, f), f, ft):
                    allowed.append(obj.z)
        if whole:
            continue
        r = fresh("r", z3.IntSort())
        cond = z3.And(0 <= r, r < old_next_ref, *[r != a for a in allowed])
        goal = z3.ForAll([r], z3.Implies(cond, z3.Select(a_end, r) == z3.Select(a_beg, r)))
        kn = "_".join(x if isinstance(x, str) else x.name() for x in k)
        self.oblige(f"{sid}.frame.{kn}", st, goal, f"only {modifies} may be modified")


# ---------------------------------------------------------------------------------------------- blocks
def ex_block(self, stmts, st):
    """Execute statements; returns the list of Outcomes (all kinds)."""
    live = [st]
    done = []
    for s in stmts:
        nxt = []
        for cur in live:
            for o in self.ex_stmt(s, cur):
                if o.kind == "normal":
                    nxt.append(o.state)
                else:
                    done.append(o)
        live = nxt
        if not live:
            break
        if len(live) + len(done) > self.MAX_PATHS:
            raise Untranslatable("path explosion")
    return done + [Outcome("normal", s) for s in live]


def ex_stmt(self, s, st):
    self.cur_line = getattr(s, "lineno", None)
    self.cur_site = self.site(s, "stmt")
    m = getattr(self, "st_" + type(s).__name__, None)
    if m is None:
        raise Untranslatable(f"statement {type(s).__name__}")
    gs = self.cur_contract.ghost_stmts if self.cur_contract is not None else {}
    if getattr(self, "complete_mode", False) and self.cur_contract is self.c and self.c.complete:
        gs = dict(gs)
        for k_, v_ in (self.c.complete.get("ghost_stmts") or {}).items():
            gs[k_] = list(gs.get(k_, [])) + list(v_)
    sid = self.cur_site.split("/")[-1] if self.cur_site else None
    # ghost statements are attached by site ordinal ("after:assign#4") or, more robustly against statements being added or
    # moved, by the text of a simple statement ("after:~shifts[class_idx] = current_shift": the unparsed statement starts with it)
    txt_keys = [k for k in gs if "~" in k] if gs else []
    src = None
    if txt_keys and not isinstance(s, (ast.For, ast.While, ast.If, ast.Try, ast.With, ast.FunctionDef)):
        src = ast.unparse(s)
    if gs and sid and f"before:{sid}" in gs:
        self.ghost_exec(gs[f"before:{sid}"], st)
    if src is not None:
        for k in txt_keys:
            if k.startswith("before:~") and src.startswith(k[8:]):
                self.ghost_exec(gs[k], st)
    mark = len(self.raise_buf)
    outs = list(m(s, st))
    raised = self.raise_buf[mark:]
    del self.raise_buf[mark:]
    if gs and sid and f"after:{sid}" in gs:
        for o in outs:
            if o.kind == "normal":
                self.ghost_exec(gs[f"after:{sid}"], o.state)
    if src is not None:
        for k in txt_keys:
            if k.startswith("after:~") and src.startswith(k[7:]):
                for o in outs:
                    if o.kind == "normal":
                        self.ghost_exec(gs[k], o.state)
    return outs + raised


def written_names(self, nodes):
    names = set()
    for n in nodes:
        for x in ast.walk(n):
            if isinstance(x, ast.Name) and isinstance(x.ctx, (ast.Store, ast.Del)):
                names.add(x.id)
            elif isinstance(x, ast.NamedExpr):
                names.add(x.target.id)
    return names


def assign_target(self, target, v, st):
    if isinstance(target, ast.Name):
        hint = self.cur_contract.locals.get(target.id) if self.cur_contract else None
        if hint is not None:
            v = self.concretise(v, hint, st)
        st.env[target.id] = v
        return
    if isinstance(target, (ast.Tuple, ast.List)):
        v = self.iter_value(v, st)
        if isinstance(v, Unknown):
            for t in target.elts:
                self.assign_target(t, Unknown("unpacked"), st)
            return
        if isinstance(v, PyTuple):
            if len(v.items) != len(target.elts):
                raise Untranslatable("unpacking arity mismatch")
            for t, x in zip(target.elts, v.items):
                self.assign_target(t, x, st)
            return
        if isinstance(v, Val) and isinstance(v.t, Tup):
            for k, t in enumerate(target.elts):
                self.assign_target(t, self.valid_ref(st, Val(v.t.elts[k], v.t.proj(v.z, k))), st)
            return
        if isinstance(v, Val) and isinstance(v.t, Seq):
            n = len(target.elts)
            self.fork_raise(st, self.seq_len(v) != n, "ValueError")
            for k, t in enumerate(target.elts):
                self.assign_target(t, self.seq_nth(v, z3.IntVal(k)), st)
            return
        raise Untranslatable(f"unpacking {v!r}")
    if isinstance(target, ast.Attribute):
        obj, _ = self.ev1(target.value, st)
        if isinstance(obj, Unknown):
            return
        if isinstance(obj, Val) and isinstance(obj.t, Obj):
            ft = self.reg.field_type(obj.t.cls, target.attr)
            if ft is None:
                if self.lenient:
                    return          # an attribute the contracts do not speak about (untracked)
                raise Untranslatable(f"store to undeclared field {obj.t.cls}.{target.attr}")
            self.set_field(st, obj, target.attr, self.concretise(v, ft, st))
            return
        raise Untranslatable("attribute store on non-object")
    if isinstance(target, ast.Subscript):
        base, _ = self.ev1(target.value, st)
        idx, _ = self.ev1(target.slice, st)
        self.store_index(base, idx, v, st, target)
        return
    raise Untranslatable(f"assignment target {type(target).__name__}")


def concretise(self, v, t, st):
    """Turn literal displays / views into a value of the expected type t."""
    if isinstance(t, Opaque) and t.nm == "Any":
        if isinstance(v, Val) and v.t == t:
            return v                     # an untracked value keeps its identity when it is only moved around
        return self.fresh_of_type(t, st, "any")
    if isinstance(v, tuple) and v and v[0] == "listlit":
        if isinstance(t, List):
            lst = self.alloc(st, t)
            for it in v[1].items:
                self.list_append(st, lst, it)
            return lst
        v = v[1]
    if isinstance(v, tuple) and v and v[0] == "listcomp":
        inner = v[1]
        if isinstance(t, List):
            lst = self.alloc(st, t)
            self.list_extend(st, lst, self.view_of(inner, st))
            return lst
        v = inner
    if isinstance(v, View):
        if isinstance(t, Seq):
            return self.materialise(v, st, t.elt)
        return v
    if isinstance(v, (Val, PyTuple, Unknown)):
        return self.coerce(v, t, st)
    return v


def store_index(self, base, idx, v, st, node):
    if isinstance(base, Unknown):
        return
    if isinstance(idx, Unknown) and isinstance(base, Val) and base.t.mutable:
        self.havoc_loc(("contents", base), st)
        return
    if isinstance(base, Val):
        t = base.t
        if isinstance(t, List):
            i = self.as_int(idx, st).z
            n = self.list_len(st, base)
            self.cur_site = self.site(node)
            self.fork_raise(st, z3.Or(i < -n, i >= n), "IndexError")
            self.list_store(st, base, z3.If(i < 0, i + n, i), self.concretise(v, t.elt, st))
            return
        if isinstance(t, Dict):
            k = self.add_key(st, base, idx)
            x = self.concretise(v, t.v, st)
            self.set_dvals(st, base, z3.Store(self.dvals(st, base), k.z, x.z))
            return
        if isinstance(t, Obj):
            c = self.reg.find_method(t.cls, "__setitem__")
            if c is not None:
                list(self.call_contract(c, [base, idx, v], {}, st, node))
                return
    raise Untranslatable(f"subscript store on {base!r}")


# ---------------------------------------------------------------------------------------------- simple statements
def st_Pass(self, s, st):
    yield Outcome("normal", st)


def st_Break(self, s, st):
    yield Outcome("break", st)


def st_Continue(self, s, st):
    yield Outcome("continue", st)


def st_Expr(self, s, st):
    v = s.value
    if isinstance(v, ast.Constant):
        yield Outcome("normal", st)          # docstring
        return
    if isinstance(v, ast.Yield):
        for val, s2 in (self.ev(v.value, st) if v.value is not None else [(none_val(), st)]):
            self.do_yield(v, val, s2)
            yield Outcome("normal", s2)
        return
    if isinstance(v, ast.YieldFrom):
        for val, s2 in self.ev(v.value, st):
            self.do_yield_from(v, val, s2)
            yield Outcome("normal", s2)
        return
    if isinstance(v, ast.Call) and isinstance(v.func, ast.Attribute) and isinstance(v.func.value, ast.Name) \
            and v.func.value.id == "logger":
        yield Outcome("normal", st)          # dropped by extraction: logging
        return
    for _, s2 in self.ev(v, st):
        yield Outcome("normal", s2)


def mark_found(self, st, cond):
    st.ghost = dict(st.ghost)
    st.ghost["found"] = bool_val(simp(z3.Or(st.ghost["found"].z, cond)))


def do_yield(self, node, val, st):
    self.yield_sites += 1
    sid = self.site(node)
    if self.c.complete and getattr(self, "complete_mode", False) and self.cur_fn == self.c.qual:
        w = st.ghost[self.c.complete["var"]]
        mark_found(self, st, self.concretise(val, w.t, st).z == w.z)
    if self.c.yield_seq and self.cur_fn == self.c.qual:
        it = self.concretise(val, self.c.returns.elt, st)
        cur = st.ghost["yielded"]
        st.ghost = dict(st.ghost)
        if cur.parts and cur.parts[0] == "items" and len(cur.parts[1]) < 6:
            st.ghost["yielded"] = self.seq_of_items(cur.parts[1] + [it], self.c.returns)
        else:
            st.ghost["yielded"] = Val(self.c.returns, z3.Concat(cur.z, z3.Unit(it.z)),
                                      parts=("concat", cur, self.seq_of_items([it], self.c.returns)))
        return
    if not self.c.yields:
        return
    want = self.c.returns.elt if isinstance(self.c.returns, Seq) else None
    it = self.concretise(val, want, st) if want is not None else val
    env = dict(self.entry.env)
    env.update({k: v for k, v in st.env.items() if k not in env})     # locals at the yield site are visible
    env["it"] = it
    for k, p in enumerate(self.c.yields):
        z = self.spec_truth(p, State(env, st.heap, st.pc, st.next_ref, st.ghost, st.labels), old=self.entry)
        self.oblige(f"{sid}.yields{k}", st, z, p)


def do_yield_from(self, node, val, st):
    self.yield_sites += 1
    sid = self.site(node)
    if self.c.complete and getattr(self, "complete_mode", False) and self.cur_fn == self.c.qual:
        # the delegated iterable yields w if its element at SOME position equals w.  The position j0 is either the
        # witness given by the callee's own completeness (instantiated at the hinted value) or stays arbitrary.
        w = st.ghost[self.c.complete["var"]]
        view0 = self.view_of(self.iter_value(val, st), st)
        j0 = fresh("jw", z3.IntSort())
        hint = (self.c.complete.get("hints") or {}).get(sid.split("/")[-1])
        inner = view0
        while getattr(inner, "inner", None) is not None and getattr(inner, "complete_inst", None) is None:
            inner = inner.inner
        if hint is not None and getattr(inner, "complete_inst", None) is not None:
            inner.complete_inst(self.spec_eval(hint, st), j0, st)
        xw = self.vat(view0, j0, st)
        mark_found(self, st, z3.And(0 <= j0, j0 < view0.length, self.concretise(xw, w.t, st).z == w.z))
    if not self.c.yields:
        return
    view = self.view_of(self.iter_value(val, st), st)
    i = fresh("yi", z3.IntSort())
    s2 = st.copy()
    s2.assume(z3.And(0 <= i, i < view.length))
    want = self.c.returns.elt if isinstance(self.c.returns, Seq) else None
    x = self.vat(view, i, s2)
    it = self.concretise(x, want, s2) if want is not None else x
    env = dict(self.entry.env)
    env["it"] = it
    for k, p in enumerate(self.c.yields):
        z = self.spec_truth(p, State(env, s2.heap, s2.pc, s2.next_ref, s2.ghost, s2.labels), old=self.entry)
        self.oblige(f"{sid}.yields{k}", s2, z, p)


def st_Assign(self, s, st):
    hint = None
    if len(s.targets) == 1 and isinstance(s.targets[0], ast.Name) and self.cur_contract:
        hint = self.cur_contract.locals.get(s.targets[0].id)
    elif len(s.targets) == 1 and isinstance(s.targets[0], ast.Attribute):
        try:
            obj, _ = self.ev1(s.targets[0].value, st)
            if isinstance(obj, Val) and isinstance(obj.t, Obj):
                hint = self.reg.field_type(obj.t.cls, s.targets[0].attr)
        except Untranslatable:
            hint = None
    saved = getattr(self, "expect_type", None)
    self.expect_type = hint
    try:
        outs = list(self.ev(s.value, st))
    finally:
        self.expect_type = saved
    for v, s2 in outs:
        for t in s.targets:
            self.assign_target(t, v, s2)
        yield Outcome("normal", s2)


def st_AnnAssign(self, s, st):
    t = None
    if isinstance(s.target, ast.Name) and self.cur_contract and s.target.id in self.cur_contract.locals:
        t = self.cur_contract.locals[s.target.id]
    if t is None and isinstance(s.target, ast.Attribute):
        # `self.x: T = ...`: the declared field type of the class (the annotation may use aliases the engine does not know)
        try:
            obj, _ = self.ev1(s.target.value, st)
            if isinstance(obj, Val) and isinstance(obj.t, Obj):
                t = self.reg.field_type(obj.t.cls, s.target.attr)
        except Untranslatable:
            t = None
    if t is None:
        from .engine import ann_to_type
        t = ann_to_type(s.annotation, self.aliases)
    if s.value is None:
        yield Outcome("normal", st)
        return
    saved = getattr(self, "expect_type", None)
    self.expect_type = t
    try:
        outs = list(self.ev(s.value, st))
    finally:
        self.expect_type = saved
    for v, s2 in outs:
        if t is not None:
            v = self.concretise(v, t, s2)
        elif self.lenient and isinstance(v, tuple) and v and v[0] in ("listlit", "listcomp", "setlit"):
            v = Unknown("container of untracked element type")
        if isinstance(s.target, ast.Name):
            s2.env[s.target.id] = v
        else:
            self.assign_target(s.target, v, s2)
        yield Outcome("normal", s2)


def st_AugAssign(self, s, st):
    load = ast.fix_missing_locations(ast.copy_location(_as_load(s.target), s.target))
    for cur, s1 in self.ev(load, st):
        for v, s2 in self.ev(s.value, s1):
            if isinstance(cur, Val) and isinstance(cur.t, List) and isinstance(s.op, ast.Add):
                self.list_extend(s2, cur, self.view_of(self.iter_value(v, s2), s2))
            else:
                self.assign_target(s.target, self.binop(s.op, cur, v, s2), s2)
            yield Outcome("normal", s2)


def _as_load(t):
    import copy
    t2 = copy.deepcopy(t)
    for x in ast.walk(t2):
        if hasattr(x, "ctx"):
            x.ctx = ast.Load()
    return t2


def st_Delete(self, s, st):
    for t in s.targets:
        if isinstance(t, ast.Subscript):
            base, _ = self.ev1(t.value, st)
            idx, _ = self.ev1(t.slice, st)
            if isinstance(base, Val) and isinstance(base.t, Dict):
                k = self.coerce(idx, base.t.k, st)
                self.cur_site = self.site(t)
                self.fork_raise(st, z3.Not(z3.Select(self.dom(st, base), k.z)), "KeyError")
                self.del_key(st, base, k)
                continue
            if isinstance(base, Val) and isinstance(base.t, Obj):
                c = self.reg.find_method(base.t.cls, "__delitem__")
                if c is not None:
                    list(self.call_contract(c, [base, idx], {}, st, t))
                    continue
        raise Untranslatable("del target")
    yield Outcome("normal", st)


def st_Return(self, s, st):
    sid = self.site(s)
    if s.value is None:
        o = Outcome("return", st, None)
        o.site = sid
        yield o
        return
    saved = getattr(self, "expect_type", None)
    self.expect_type = self.cur_contract.returns if self.cur_contract else None
    try:
        outs = list(self.ev(s.value, st))
    finally:
        self.expect_type = saved
    for v, s2 in outs:
        o = Outcome("return", s2, v)
        o.site = sid
        yield o


def st_Raise(self, s, st):
    sid = self.site(s)
    if s.exc is None:
        if not self.handling:
            raise Untranslatable("bare raise outside handler")
        o = Outcome("raise", st, exc=self.handling[-1])
        o.site = sid
        yield o
        return
    for v, s2 in self.ev(s.exc, st):
        name = None
        if isinstance(v, PyConst) and isinstance(v.v, tuple) and v.v[0] in ("exc", "excinst"):
            name = v.v[1]
        elif isinstance(v, PyConst) and isinstance(v.v, tuple) and v.v[0] == "attr":
            name = v.v[-1]
        if name is None:
            raise Untranslatable(f"raise of {v!r}")
        o = Outcome("raise", s2, exc=name)
        o.site = sid
        yield o


def st_Assert(self, s, st):
    sid = self.site(s)
    mode = getattr(self.cur_contract, "asserts", "prove") if self.cur_contract else "prove"
    for v, s2 in self.ev(s.test, st):
        z = self.truth(v, s2)
        narrowing = isinstance(s.test, ast.Call) and isinstance(s.test.func, ast.Name) and s.test.func.id == "isinstance"
        if narrowing and self.lenient:
            self.assume_log("lenient: `assert isinstance(...)` on untracked values is a type-narrowing assert (assumed)")
            s2.assume(z)
            yield Outcome("normal", s2)
        elif mode == "assume":
            self.assume_log(f"code assert assumed (data-dependent, outside this contract's claim): {ast.unparse(s.test)[:70]}")
            s2.assume(z)
            yield Outcome("normal", s2)
        elif mode == "raise":
            zs = simp(z)
            if not z3.is_true(zs):
                s_f = s2.copy()
                s_f.assume(z3.Not(z))
                o = Outcome("raise", s_f, exc="AssertionError")
                o.site = sid
                yield o
            s2.assume(z)
            yield Outcome("normal", s2)
        else:
            self.oblige(f"{sid}", s2, z, "assert in the code: " + ast.unparse(s.test)[:80])
            s2.assume(z)
            yield Outcome("normal", s2)


def st_If(self, s, st):
    for c, s1 in self.ev(s.test, st):
        tv = simp(self.truth(c, s1))
        if z3.is_true(tv) or (not z3.is_false(tv) and self.entails(s1, tv)):
            yield from self.ex_block(s.body, s1)
        elif z3.is_false(tv) or self.entails(s1, z3.Not(tv)):
            yield from self.ex_block(s.orelse, s1)
        else:
            s_t, s_f = s1, s1.copy()
            s_t.assume(tv)
            s_f.assume(z3.Not(tv))
            yield from self.ex_block(s.body, s_t)
            yield from self.ex_block(s.orelse, s_f)


def st_ImportFrom(self, s, st):
    for a in s.names:
        st.env[a.asname or a.name] = FuncRef(a.name)
    yield Outcome("normal", st)


def st_Import(self, s, st):
    for a in s.names:
        st.env[a.asname or a.name.split(".")[0]] = PyConst(("module", a.name))
    yield Outcome("normal", st)


def st_With(self, s, st):
    raise Untranslatable("with statement")


def st_FunctionDef(self, s, st):
    st.env[s.name] = Closure(s, st.env)
    yield Outcome("normal", st)


def st_Try(self, s, st):
    if s.finalbody:
        # try ... finally: the finally block runs after every outcome; if it completes normally the pending outcome
        # (return / raise / break / continue) resumes, otherwise its own outcome REPLACES the pending one
        inner = ast.Try(body=s.body, handlers=s.handlers, orelse=s.orelse, finalbody=[])
        ast.copy_location(inner, s)
        outs = list(self.st_Try(inner, st)) if (s.handlers or s.orelse) else self.ex_block(s.body, st)
        for o in outs:
            for f in self.ex_block(s.finalbody, o.state):
                if f.kind == "normal":
                    o2 = Outcome(o.kind, f.state, o.value, o.exc)
                    o2.site = o.site
                    yield o2
                else:
                    yield f
        return
    outs = self.ex_block(s.body, st)
    for o in outs:
        if o.kind == "normal":
            yield from self.ex_block(s.orelse, o.state) if s.orelse else [o]
        elif o.kind == "raise":
            handled = False
            for h in s.handlers:
                names = _handler_names(h)
                from .engine import exc_matches
                if names is None or any(exc_matches(o.exc, n) for n in names):
                    handled = True
                    if h.name:
                        o.state.env[h.name] = PyConst(("excinst", o.exc))
                    self.handling.append(o.exc)
                    try:
                        yield from self.ex_block(h.body, o.state)
                    finally:
                        self.handling.pop()
                    break
            if not handled:
                yield o
        else:
            yield o


def _handler_names(h):
    if h.type is None:
        return None
    if isinstance(h.type, ast.Tuple):
        return [ast.unparse(x).split(".")[-1] for x in h.type.elts]
    return [ast.unparse(h.type).split(".")[-1]]


# ---------------------------------------------------------------------------------------------- ghost code
def ghost_exec(self, stmts, st):
    """Ghost statements of the sidecar: `name = expr` updates of ghost variables, `label NAME` state labels,
    `assert expr` intermediate lemmas (obligations), `assume_lemma name(args)` uses of proved lemmas."""
    for g in stmts:
        g = g.strip()
        if g.startswith("label "):
            st.labels = dict(st.labels)
            st.labels[g[6:].strip()] = State(dict(st.env), dict(st.heap), st.pc, st.next_ref, dict(st.ghost), st.labels)
            continue
        if g.startswith("assert "):
            z = self.spec_truth(g[7:], st)
            self.oblige(self.oid("ghost_assert"), st, z, g)
            st.assume(z)
            continue
        if g.startswith("assume "):
            # an explicit, named assumption about user code (A2); listed in the evidence, never silently added
            what, _, why = g[7:].partition(" ## ")
            st.assume(self.spec_truth(what, st))
            self.assume_log(f"A2 (assumed in the contract of {self.c.qual}): {what}" + (f" -- {why}" if why else ""))
            continue
        if g.startswith("use "):
            self.use_lemma(g[4:], st)
            continue
        if g.startswith("when ") and ": use " in g:
            cond, call = g[5:].split(": use ", 1)
            self.use_lemma(call, st, guard=self.spec_truth(cond, st))
            continue
        node = ast.parse(g).body[0]
        if isinstance(node, ast.Assign) and isinstance(node.targets[0], ast.Name):
            v = self.spec_eval(node.value, st)
            st.ghost = dict(st.ghost)
            st.ghost[node.targets[0].id] = v
            continue
        if isinstance(node, ast.Assign) and isinstance(node.targets[0], ast.Attribute):
            obj = self.spec_eval(node.targets[0].value, st)
            v = self.spec_eval(node.value, st)
            saved_spec = self.spec
            self.spec = True
            try:
                self.set_field(st, obj, node.targets[0].attr, v)
            finally:
                self.spec = saved_spec
            continue
        raise ContractError(f"ghost statement not understood: {g}")


def use_lemma(self, call_src, st, guard=None):
    """`use lemma_name(args)`: assert the lemma's requires, assume its ensures (the lemma is proved separately)."""
    node = parse_expr(call_src)
    lem = self.reg.contracts.get(node.func.id)
    if lem is None:
        raise ContractError(f"unknown lemma {node.func.id}")
    args = [self.spec_eval(a, st) for a in node.args]
    env = {}
    for (n, t), a in zip(lem.params.items(), args):
        env[n] = self.coerce(self.guess_tuple(a, st), t, st)
    ls = State(env, st.heap, st.pc, st.next_ref, st.ghost, st.labels)
    site = self.oid(f"lemma:{node.func.id}")
    for k, r in enumerate(lem.requires):
        z = self.spec_truth(r, ls)
        self.oblige(f"{site}.pre{k}", st, z if guard is None else z3.Implies(guard, z), f"lemma precondition: {r}")
    for p in lem.ensures:
        z = self.spec_truth(p, ls)
        st.assume(z if guard is None else z3.Implies(guard, z))


# ---------------------------------------------------------------------------------------------- loops
def st_For(self, s, st):
    it_node = s.iter
    if isinstance(it_node, ast.Call) and isinstance(it_node.func, ast.Name) and it_node.func.id == "list" \
            and len(it_node.args) == 1 and not it_node.keywords and "list" not in st.env:
        # `for x in list(v)`: iterate over a snapshot of v.  Views of dicts/sets ARE snapshots (their enumeration and the
        # arrays they read are fixed when the view is created), so the copy need not be materialised; this keeps the
        # enumeration available to loop invariants as _keysK.
        it_node = it_node.args[0]
    for it, s1 in self.ev(it_node, st):
        yield from self.exec_loop(s, s1, it)


def st_While(self, s, st):
    yield from self.exec_loop(s, st, None)


def loop_spec(self, node):
    if hasattr(node, "_pyvc_comp"):
        k = node._pyvc_comp
        pre = "" if self.cur_fn == self.c.qual else f"inl:{self.cur_fn}/"
        return f"{pre}listcomp#{k}", f"c{k}", self.cur_contract.comp_loops.get(k)
    sid = self.site(node)
    k = int(sid.split("#")[-1]) if "#" in sid else 0
    spec = self.cur_contract.loops.get(k) if self.cur_contract else None
    if getattr(self, "complete_mode", False) and self.cur_contract is self.c and self.c.complete \
            and k in (self.c.complete.get("invariants") or {}):
        from .dsl import LoopSpec
        base = spec or LoopSpec()
        spec = LoopSpec(invariant=list(base.invariant) + list(self.c.complete["invariants"][k]), decreases=base.decreases,
                        modifies=base.modifies, ghost_before=base.ghost_before, ghost_end=base.ghost_end, index=base.index)
        spec.n_base = len(base.invariant)
    return sid, k, spec


def exec_loop(self, node, st, iterable):
    from .dsl import LoopSpec
    sid, k, spec = self.loop_spec(node)
    is_for = isinstance(node, ast.For)
    if is_for:
        itv = self.iter_value(iterable, st)
        # small literal sequences are unrolled
        if isinstance(itv, PyTuple) and spec is None:
            yield from self.unroll(node, st, itv.items)
            return
        if isinstance(itv, Val) and isinstance(itv.t, Seq) and itv.parts and itv.parts[0] == "items" and spec is None:
            yield from self.unroll(node, st, itv.parts[1])
            return
        view = self.view_of(itv, st)
        st.assume(view.length >= 0)
    spec = spec or LoopSpec()
    idx_name = spec.index or f"_i{k}"
    self.ghost_exec(spec.ghost_before, st)
    st.labels = dict(st.labels)
    st.labels[f"loop{k}"] = State(dict(st.env), dict(st.heap), st.pc, st.next_ref, dict(st.ghost), st.labels)
    if is_for:
        st.ghost = dict(st.ghost)
        st.ghost[idx_name] = int_val(0)
        st.ghost[f"_n{k}"] = int_val(view.length)
        if getattr(view, "keys_seq", None) is not None:
            st.ghost[f"_keys{k}"] = view.keys_seq       # the (arbitrary) enumeration of the iterated dict/set
    # locals first assigned inside the loop: give them an arbitrary (typed) value before the loop so that invariants may
    # mention them (the value is unconstrained; reading it before assignment would be an UnboundLocalError, A9)
    for n in sorted(self.written_names(list(node.body))):
        if n not in st.env and self.cur_contract is not None and self.cur_contract.locals.get(n) is not None:
            st.env[n] = self.fresh_of_type(self.cur_contract.locals[n], st, n)
    # 1. invariant holds on entry
    for j, inv in enumerate(spec.invariant):
        self.oblige(f"{sid}.inv{j}.entry", st, self.spec_truth(inv, st), inv)
    # 2. havoc what the loop may change
    body_nodes = list(node.body)
    names = self.written_names(body_nodes + ([node.target] if is_for else []))
    pre_loop = State(dict(st.env), dict(st.heap), list(st.pc), st.next_ref, dict(st.ghost), st.labels)
    h = st.copy()
    for n in sorted(names):
        if n not in h.env:
            # first assigned inside the loop: at the head of an arbitrary iteration it may or may not be bound yet.
            # Reading it unbound would be an UnboundLocalError in Python; we do not prove boundness (assumption A9).
            # (the loop's own target is assigned at the head of every iteration: no assumption there)
            is_target = is_for and n in {x.id for x in ast.walk(node.target) if isinstance(x, ast.Name)}
            hint = self.cur_contract.locals.get(n) if self.cur_contract else None
            if hint is not None:
                h.env[n] = self.fresh_of_type(hint, h, n)
            elif self.lenient:
                h.env[n] = Unknown(f"local {n} first assigned inside the loop")
            if n in h.env and not is_target:
                self.assume_log(f"A9: local {n} is bound whenever it is read (first assigned inside a loop)")
        if n in h.env:
            cur = h.env[n]
            cur = self.guess_tuple(cur, h) if isinstance(cur, PyTuple) else cur
            if isinstance(cur, tuple) and cur and cur[0] == "listlit":
                raise Untranslatable(f"list literal {n} mutated in loop: add a locals type hint")
            if not isinstance(cur, Val):
                if isinstance(cur, (PyConst, Unknown)):
                    continue
                raise Untranslatable(f"loop-carried variable {n} of unsupported kind {cur!r}")
            if cur.t == NoneT:
                hint = self.cur_contract.locals.get(n) if self.cur_contract else None
                if hint is None:
                    raise Untranslatable(f"loop-carried variable {n} starts as None: add a locals type hint")
                h.env[n] = self.fresh_of_type(hint, h, n)
            else:
                h.env[n] = self.fresh_of_type(cur.t, h, n)
    if "found" in h.ghost and any(isinstance(x, (ast.Yield, ast.YieldFrom)) for b in body_nodes for x in ast.walk(b)):
        h.ghost["found"] = bool_val(fresh("found", z3.BoolSort()))
    if "yielded" in h.ghost and any(isinstance(x, (ast.Yield, ast.YieldFrom)) for b in body_nodes for x in ast.walk(b)):
        h.ghost["yielded"] = self.fresh_of_type(h.ghost["yielded"].t, h, "yielded")
    heap_mods = spec.modifies
    if heap_mods is None:
        written = self.dry_run_written_keys(node, h, is_for, view if is_for else None, idx_name)
        for key in written:
            self.heap.set(h, key, fresh("hv", self.heap.key_sort(key)))
    else:
        for m in heap_mods:
            self.havoc_loc(self.loc_of(m, pre_loop), h)
    bump = fresh("allocd", z3.IntSort())
    h.assume(bump >= 0)
    h.next_ref = st.next_ref + bump
    if is_for:
        idx = fresh(idx_name, z3.IntSort())
        h.ghost[idx_name] = int_val(idx)
        h.assume(z3.And(0 <= idx, idx <= view.length))
    for inv in spec.invariant:
        h.assume(self.spec_truth(inv, h))
    # 3. exit path
    if is_for:
        s_exit = h.copy()
        s_exit.assume(idx == view.length)
        exit_states = [s_exit]
        s_body = h
        s_body.assume(idx < view.length)
        x = self.vat(view, idx, s_body)
        self.assign_target(node.target, x, s_body)
        body_starts = [s_body]
    else:
        exit_states, body_starts = [], []
        for c, s1 in self.ev(node.test, h):
            tv = simp(self.truth(c, s1))
            if not z3.is_true(tv):
                se = s1.copy()
                se.assume(z3.Not(tv))
                exit_states.append(se)
            if not z3.is_false(tv):
                s1.assume(tv)
                body_starts.append(s1)
    for se in exit_states:
        if node.orelse:
            yield from self.ex_block(node.orelse, se)
        else:
            yield Outcome("normal", se)
    # 4. one arbitrary iteration
    for sb in body_starts:
        head = State(dict(sb.env), dict(sb.heap), list(sb.pc), sb.next_ref, dict(sb.ghost), sb.labels)
        sb.labels = dict(sb.labels)
        sb.labels[f"iter{k}"] = head          # at('iterK', e): e at the start of the (arbitrary) current iteration
        dec0 = self.as_int(self.spec_eval(spec.decreases, sb), sb).z if spec.decreases else None
        for o in self.ex_block(body_nodes, sb):
            if o.kind in ("normal", "continue"):
                s_end = o.state
                if is_for:
                    s_end.ghost = dict(s_end.ghost)
                    s_end.ghost[idx_name] = int_val(idx + 1)
                self.ghost_exec(spec.ghost_end, s_end)
                for j, inv in enumerate(spec.invariant):
                    self.oblige(f"{sid}.inv{j}.preserve", s_end, self.spec_truth(inv, s_end), inv)
                if dec0 is not None:
                    d1 = self.as_int(self.spec_eval(spec.decreases, s_end), s_end).z
                    self.oblige(f"{sid}.decreases", s_end, z3.And(dec0 >= 0, d1 < dec0), spec.decreases)
                if heap_mods is not None:
                    self.check_frame(s_end, head, heap_mods, sid, head.next_ref, env=pre_loop.env)
            elif o.kind == "break":
                yield Outcome("normal", o.state)
            else:
                yield o


def unroll(self, node, st, items):
    live = [st]
    for it in items:
        nxt = []
        for cur in live:
            self.assign_target(node.target, it, cur)
            for o in self.ex_block(node.body, cur):
                if o.kind in ("normal", "continue"):
                    nxt.append(o.state)
                elif o.kind == "break":
                    yield Outcome("normal", o.state)
                else:
                    yield o
        live = nxt
    for cur in live:
        if node.orelse:
            yield from self.ex_block(node.orelse, cur)
        else:
            yield Outcome("normal", cur)


def dry_run_written_keys(self, node, h, is_for, view, idx_name):
    """Execute the loop body once without emitting obligations, to learn which heap arrays it writes."""
    saved = (self.obls, self.raise_buf, dict(self.counters), self.spec, self.covers, self.paths, self.yield_sites)
    self.obls, self.raise_buf, self.covers = [], [], []
    s = h.copy()
    written = set()
    try:
        if is_for:
            i = fresh("dry", z3.IntSort())
            self.assign_target(node.target, self.vat(view, i, s), s)
            starts = [s]
        else:
            starts = [s1 for _, s1 in self.ev(node.test, s)]
        base = dict(h.heap)
        for sb in starts:
            for o in self.ex_block(list(node.body), sb):
                for k, a in o.state.heap.items():
                    b = base.get(k, self.heap.initial.get(k))
                    if b is None or not a.eq(b):
                        written.add(k)
        for o in self.raise_buf:
            for k, a in o.state.heap.items():
                b = base.get(k, self.heap.initial.get(k))
                if b is None or not a.eq(b):
                    written.add(k)
    finally:
        self.obls, self.raise_buf, self.counters, self.spec, self.covers, self.paths, self.yield_sites = saved
    return sorted(written, key=str)
