"""Extraction of the real functions from /repo's current working tree (re-read on every run, nothing cached)."""
import ast
import os
from .core import FuncRef, PyConst, ContractError

REPO = os.environ.get("PYVC_REPO", "/repo")


class SourceIndex:
    def __init__(self, reg, repo=None):
        self.reg = reg
        self.repo = repo or REPO
        self.modules = {}
        self.dropped = set()

    def module(self, file):
        if file not in self.modules:
            path = os.path.join(self.repo, file) if not file.startswith("verif:") else \
                os.path.join(os.path.dirname(os.path.dirname(os.path.abspath(__file__))), file[6:])
            with open(path) as f:
                src = f.read()
            self.modules[file] = ast.parse(src, filename=path)
        return self.modules[file]

    def find_in(self, file, qual):
        mod = self.module(file)
        parts = qual.split(".")
        body = mod.body
        node = None
        for p in parts:
            node = None
            for n in body:
                if isinstance(n, (ast.FunctionDef, ast.ClassDef, ast.AsyncFunctionDef)) and n.name == p:
                    node = n
                    break
            if node is None:
                raise ContractError(f"{qual} not found in {file} (contract refers to a vanished name)")
            body = node.body
        return node, mod

    def find(self, c):
        node, mod = self.find_in(c.file, getattr(c, "source", c.qual))
        if not isinstance(node, ast.FunctionDef):
            raise ContractError(f"{c.qual} is not a function")
        return node, mod, c.file

    def resolve_global(self, mod, name):
        """A module-level name used inside a function: function/class with a contract, imported module, constant."""
        for n in mod.body:
            if isinstance(n, (ast.FunctionDef, ast.ClassDef)) and n.name == name:
                return FuncRef(name)
            if isinstance(n, ast.Import):
                for a in n.names:
                    if (a.asname or a.name.split(".")[0]) == name:
                        return PyConst(("module", a.name))
            if isinstance(n, ast.ImportFrom):
                for a in n.names:
                    if (a.asname or a.name) == name:
                        if name in self.reg.contracts or name in self.reg.classes \
                                or name + ".__init__" in self.reg.contracts:
                            return FuncRef(name)
                        return PyConst(("builtin", name)) if n.module in ("typing", "collections", "itertools",
                                                                           "functools", "operator", "random", "copy", "time") \
                            else FuncRef(name)
            if isinstance(n, ast.Assign) and len(n.targets) == 1 and isinstance(n.targets[0], ast.Name) \
                    and n.targets[0].id == name:
                if isinstance(n.value, ast.Constant):
                    return PyConst(n.value.value)
        return None
