"""Values, heap, symbolic state and obligations of pyvc."""
import itertools
import z3
from . import ty
from .ty import Int, Bool, NoneT, Str, Opt, Seq, Tup, List, Deque, Dict, Set, Obj, Opaque, Fun


class Untranslatable(Exception):
    """The construct is outside the verified subset: the obligation becomes UNDECIDED, never a violation."""


class ContractError(Exception):
    """The sidecar contract is malformed or refers to something that vanished."""


_fresh = itertools.count()


def fresh(prefix, sort):
    import pyvc.core as me
    return z3.Const(f"{prefix}!{next(me._fresh)}", sort)


# ---------------------------------------------------------------- values
class Val:
    """An SMT value of a known type."""
    __slots__ = ("t", "z", "parts")

    def __init__(self, t, z, parts=None):
        self.t, self.z, self.parts = t, z, parts

    def __repr__(self):
        return f"Val({self.t},{self.z})"


class PyConst:
    """A Python-level constant that is not an SMT value (a string literal, an exception class, a module...)."""
    def __init__(self, v): self.v = v
    def __repr__(self): return f"PyConst({self.v!r})"


class PyTuple:
    """A tuple display whose static type is decided by its use."""
    def __init__(self, items): self.items = list(items)
    def __repr__(self): return f"PyTuple({self.items})"


class Unknown:
    """A value the encoding does not track (lenient contracts only).  Always a havoc: using it yields fresh,
    unconstrained SMT values, so obligations depending on it cannot be discharged by accident."""
    def __init__(self, why=""): self.why = why
    def __repr__(self): return f"Unknown({self.why})"


class BoundMethod:
    def __init__(self, recv, name): self.recv, self.name = recv, name


class FuncRef:
    """Reference to a function known by qualified name (module level function, static method, class)."""
    def __init__(self, qual, node=None): self.qual, self.node = qual, node


class Closure:
    """A lambda or local function: evaluated by inlining."""
    def __init__(self, node, env): self.node, self.env = node, env


class ProviderCall:
    """A function-valued argument with a provider contract; calls are recorded in the ghost trace."""
    def __init__(self, name, index=None): self.name, self.index = name, index


def none_val():
    return Val(NoneT, z3.BoolVal(True))


def int_val(n):
    return Val(Int, z3.IntVal(n)) if isinstance(n, int) else Val(Int, n)


def bool_val(b):
    return Val(Bool, z3.BoolVal(b)) if isinstance(b, bool) else Val(Bool, b)


# ---------------------------------------------------------------- iterable views
class View:
    """A finite sequence given by a length and an indexing function (index is an SMT Int)."""
    def __init__(self, length, at, elt_t=None, distinct=False):
        self.length, self.at, self.elt_t, self.distinct = length, at, elt_t, distinct


class MemView:
    """An iterable known only through its membership predicate (order and multiplicity not tracked)."""
    def __init__(self, pred, elt_t):
        self.pred, self.elt_t = pred, elt_t


# ---------------------------------------------------------------- state
class State:
    __slots__ = ("env", "heap", "pc", "next_ref", "ghost", "labels")

    def __init__(self, env=None, heap=None, pc=None, next_ref=None, ghost=None, labels=None):
        self.env = env if env is not None else {}
        self.heap = heap if heap is not None else {}
        self.pc = pc if pc is not None else []
        self.next_ref = next_ref
        self.ghost = ghost if ghost is not None else {}
        self.labels = labels if labels is not None else {}

    def copy(self):
        return State(dict(self.env), dict(self.heap), list(self.pc), self.next_ref, dict(self.ghost), dict(self.labels))

    def assume(self, z):
        if z3.is_true(z):
            return
        self.pc.append(z)


class Outcome:
    """Result of executing a statement on one path."""
    __slots__ = ("kind", "state", "value", "exc", "site")

    def __init__(self, kind, state, value=None, exc=None):
        self.kind, self.state, self.value, self.exc, self.site = kind, state, value, exc, None   # kind: normal|return|raise|break|continue


class Obligation:
    def __init__(self, oid, hyps, goal, lineno=None, note=""):
        self.oid, self.hyps, self.goal, self.lineno, self.note = oid, list(hyps), goal, lineno, note
        self.inputs = None   # name -> z3 term, for counterexample extraction


# ---------------------------------------------------------------- heap
class Heap:
    """Heap arrays are created lazily; `initial` is shared by all states of one function run."""

    def __init__(self):
        self.initial = {}

    @staticmethod
    def key_sort(key):
        kind = key[0]
        I = z3.IntSort()
        if kind in ("len", "off", "card"):
            return z3.ArraySort(I, I)
        if kind == "elem":
            return z3.ArraySort(I, z3.ArraySort(I, key[2].sort()))
        if kind == "dom":
            return z3.ArraySort(I, z3.ArraySort(key[2].sort(), z3.BoolSort()))
        if kind == "val":
            return z3.ArraySort(I, z3.ArraySort(key[2].sort(), key[3].sort()))
        if kind == "fld":
            return z3.ArraySort(I, key[3].sort())
        raise KeyError(key)

    def get(self, st, key):
        h = st.heap.get(key)
        if h is None:
            h = self.initial.get(key)
            if h is None:
                nm = "H0_" + "_".join(str(k) if not isinstance(k, ty.T) else k.name() for k in key)
                h = z3.Const(nm, self.key_sort(key))
                self.initial[key] = h
            st.heap[key] = h
        return h

    def set(self, st, key, arr):
        st.heap[key] = arr


def type_heap_keys(t):
    """Heap keys holding the contents of a mutable value of type t."""
    if isinstance(t, (List,)):
        n = t.name()
        ks = [("len", n), ("elem", n, t.elt)]
        if isinstance(t, Deque):
            ks.append(("off", n))
        return ks
    if isinstance(t, Dict):
        return [("dom", t.name(), t.k), ("val", t.name(), t.k, t.v), ("card", t.name())]
    if isinstance(t, Set):
        return [("dom", t.name(), t.k), ("card", t.name())]
    return []
