"""Types of the verified Python subset and their SMT sorts.

Immutable values (int, bool, None, Optional, tuples, opaque values) are SMT values.
Mutable values (list, dict, set, deque, Counter, class instances) are references (Int) into heap arrays.
"""
import z3

_dt_cache = {}


class T:
    mutable = False

    def __eq__(self, o):
        return type(self) is type(o) and self.key() == o.key()

    def __hash__(self):
        return hash((type(self).__name__, self.key()))

    def __repr__(self):
        return self.name()


class _Int(T):
    def key(self): return ()
    def name(self): return "Int"
    def sort(self): return z3.IntSort()


class _Bool(T):
    def key(self): return ()
    def name(self): return "Bool"
    def sort(self): return z3.BoolSort()


class _NoneT(T):
    def key(self): return ()
    def name(self): return "NoneT"
    def sort(self): return z3.BoolSort()  # a dummy; value always True


class _Str(T):
    """Strings only as opaque injective constants (dictionary keys, parameter names)."""
    def key(self): return ()
    def name(self): return "Str"
    def sort(self): return z3.StringSort()


Int, Bool, NoneT, Str = _Int(), _Bool(), _NoneT(), _Str()


class Opaque(T):
    def __init__(self, nm): self.nm = nm
    def key(self): return self.nm
    def name(self): return self.nm
    def sort(self):
        k = ("opaque", self.nm)
        if k not in _dt_cache:
            _dt_cache[k] = z3.DeclareSort(self.nm)
        return _dt_cache[k]


class Opt(T):
    def __init__(self, elt): self.elt = elt
    def key(self): return self.elt
    def name(self): return f"Opt_{self.elt.name()}"
    def sort(self):
        k = ("opt", self.elt)
        if k not in _dt_cache:
            d = z3.Datatype(self.name())
            d.declare(f"none_{self.elt.name()}")
            d.declare(f"some_{self.elt.name()}", (f"val_{self.elt.name()}", self.elt.sort()))
            _dt_cache[k] = d.create()
        return _dt_cache[k]
    def none(self): return getattr(self.sort(), f"none_{self.elt.name()}")
    def some(self, z): return getattr(self.sort(), f"some_{self.elt.name()}")(z)
    def val(self, z): return getattr(self.sort(), f"val_{self.elt.name()}")(z)
    def is_none(self, z): return z == self.none()


class Seq(T):
    """Immutable homogeneous tuple."""
    def __init__(self, elt): self.elt = elt
    def key(self): return self.elt
    def name(self): return f"Seq_{self.elt.name()}"
    def sort(self): return z3.SeqSort(self.elt.sort())


class Tup(T):
    """Fixed-arity tuple / NamedTuple."""
    def __init__(self, *elts, names=None, nm=None):
        self.elts = tuple(elts); self.names = tuple(names) if names else None; self.nm = nm
    def key(self): return (self.elts, self.nm)
    def name(self): return self.nm or "Tup_" + "_".join(e.name() for e in self.elts)
    def sort(self):
        k = ("tup", self.key())
        if k not in _dt_cache:
            d = z3.Datatype(self.name())
            d.declare("mk_" + self.name(), *[(f"{self.name()}_f{i}", e.sort()) for i, e in enumerate(self.elts)])
            _dt_cache[k] = d.create()
        return _dt_cache[k]
    def mk(self, *zs): return getattr(self.sort(), "mk_" + self.name())(*zs)
    def proj(self, z, i): return getattr(self.sort(), f"{self.name()}_f{i}")(z)


class _RefT(T):
    mutable = True
    def sort(self): return z3.IntSort()


class List(_RefT):
    def __init__(self, elt): self.elt = elt
    def key(self): return self.elt
    def name(self): return f"List_{self.elt.name()}"


class Deque(List):
    """collections.deque: list representation plus a start offset (popleft)."""
    def name(self): return f"Deque_{self.elt.name()}"


class Dict(_RefT):
    def __init__(self, k, v, counter=False, default=False):
        # default=True: collections.defaultdict whose factory builds an empty container of type v
        self.k, self.v, self.counter, self.default = k, v, counter, default
    def key(self): return (self.k, self.v, self.counter, self.default)
    def name(self):
        if self.counter:
            return f"Counter_{self.k.name()}"
        return ("DefaultDict" if self.default else "Dict") + f"_{self.k.name()}_{self.v.name()}"


def Counter(k):
    return Dict(k, Int, counter=True)


def DefaultDict(k, v):
    return Dict(k, v, default=True)


class Set(_RefT):
    def __init__(self, k): self.k = k
    def key(self): return self.k
    def name(self): return f"Set_{self.k.name()}"


class Obj(_RefT):
    def __init__(self, cls): self.cls = cls
    def key(self): return self.cls
    def name(self): return f"Obj_{self.cls}"


class Map(T):
    """An immutable total map (specification/ghost values only): an SMT array."""
    def __init__(self, k, v): self.k, self.v = k, v
    def key(self): return (self.k, self.v)
    def name(self): return f"Map_{self.k.name()}_{self.v.name()}"
    def sort(self): return z3.ArraySort(self.k.sort(), self.v.sort())


class Fun(T):
    """A callable value with a declared provider contract (see engine.Provider)."""
    def __init__(self, nm): self.nm = nm
    def key(self): return self.nm
    def name(self): return f"Fun_{self.nm}"
    def sort(self): return z3.IntSort()


def parse_type(s, env=None):
    """Parse a type written as a Python expression string in a sidecar (e.g. 'List(Opt(Int))')."""
    if isinstance(s, T):
        return s
    g = dict(Int=Int, Bool=Bool, NoneT=NoneT, Str=Str, Opt=Opt, Seq=Seq, Tup=Tup, List=List, Deque=Deque, Dict=Dict,
             Set=Set, Obj=Obj, Opaque=Opaque, Counter=Counter, Fun=Fun, DefaultDict=DefaultDict, Map=Map)
    if env:
        g.update(env)
    return eval(s, g)
