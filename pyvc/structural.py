"""Structural (frame / ownership / placement) obligations decided on the AST of the real code.

These are obligations whose truth is a syntactic fact about the current source (which attributes a function may store
to, where a `break` or a `raise` sits relative to a call, which special methods a class defines).  They are generated
from /repo on every run like all other obligations, reported with back end "ast-structural", and a failing one names the
offending source line.  They are frame conditions, not behavioural proofs."""
import ast
import os

CHECKS = []


def structural(props, oid, note):
    def deco(fn):
        CHECKS.append({"props": props, "id": oid, "note": note, "fn": fn})
        return fn
    return deco


class Src:
    def __init__(self, repo):
        self.repo = repo
        self.cache = {}

    def mod(self, file):
        if file not in self.cache:
            self.cache[file] = ast.parse(open(os.path.join(self.repo, file)).read())
        return self.cache[file]

    def cls(self, file, name):
        for n in self.mod(file).body:
            if isinstance(n, ast.ClassDef) and n.name == name:
                return n
        raise LookupError(f"class {name} not found in {file}")

    def fn(self, file, qual):
        body = self.mod(file).body
        node = None
        for p in qual.split("."):
            node = next((n for n in body if isinstance(n, (ast.FunctionDef, ast.ClassDef)) and n.name == p), None)
            if node is None:
                raise LookupError(f"{qual} not found in {file}")
            body = node.body
        return node


def run(props, repo):
    """Returns obligation results in the same shape as the SMT ones."""
    src = Src(repo)
    out = []
    for c in CHECKS:
        if props and not (set(props) & set(c["props"])):
            continue
        r = {"id": c["id"], "note": c["note"], "solver": "ast-structural", "seconds": 0.0, "line": None,
             "function": c["id"].split("/")[0], "file": None}
        try:
            bad = c["fn"](src)
            if bad:
                r.update({"status": "sat", "model": {"offending": bad[:5]}, "model_txt": "; ".join(map(str, bad[:5]))})
            else:
                r["status"] = "unsat"
        except LookupError as e:
            r.update({"status": "unknown", "reason": str(e)})
        out.append(r)
    return out
