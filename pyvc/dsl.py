"""Sidecar contract declarations.  A contract file does `from pyvc.dsl import *` and calls klass()/contract()."""
from .ty import *  # noqa: F401,F403
from .ty import T


class ClassSpec:
    def __init__(self, file, name, fields, bases, invariant, properties, ghost_fields, iter_delegate=None):
        self.file, self.name, self.fields, self.bases = file, name, fields, bases
        self.invariant, self.properties, self.ghost_fields = invariant, properties, ghost_fields
        self.iter_delegate = iter_delegate


class LoopSpec:
    def __init__(self, invariant=(), decreases=None, modifies=None, ghost_before=(), ghost_end=(), index=None):
        self.invariant = list(invariant)
        self.decreases = decreases
        self.modifies = modifies
        self.ghost_before = list(ghost_before)    # ghost statements executed before the loop
        self.ghost_end = list(ghost_end)          # ghost statements executed at the end of each iteration
        self.index = index                        # name of the ghost index variable (default _i<k>)


class Contract:
    def __init__(self, file, qual, **kw):
        self.file, self.qual = file, qual
        self.props = kw.pop("props", [])
        self.params = kw.pop("params", {})
        self.returns = kw.pop("returns", None)
        self.requires = list(kw.pop("requires", []))
        self.ensures = list(kw.pop("ensures", []))
        self.raises = list(kw.pop("raises", []))          # [(ExcName, cond)]  raised iff cond (pre-state)
        self.may_raise = list(kw.pop("may_raise", []))    # [ExcName] may be raised, condition unspecified
        self.ensures_raise = dict(kw.pop("ensures_raise", {}))  # ExcName -> [post expr] on that exceptional exit
        self.modifies = list(kw.pop("modifies", []))
        self.loops = {k: (v if isinstance(v, LoopSpec) else LoopSpec(**v)) for k, v in kw.pop("loops", {}).items()}
        self.comp_loops = {k: (v if isinstance(v, LoopSpec) else LoopSpec(**v)) for k, v in kw.pop("comp_loops", {}).items()}
        # comp_loops: list comprehension ordinal -> loop contract; the comprehension is then executed as the loop
        #   _comp<k> = []; for <target> in <iter>: _comp<k>.append(<elt>)      (needed when <elt> has side effects)
        self.yields = list(kw.pop("yields", []))          # each yielded value `it` satisfies these
        # how many values a TRUSTED generator yields (`count`); refused on verified contracts (nothing checks it)
        self.yields_count = list(kw.pop("yields_count", []))
        if self.yields_count and kw.get("verify", True):
            raise ValueError(f"{qual}: yields_count is only available on trusted (verify=False) generator summaries")
        self.decreases = kw.pop("decreases", None)
        self.inline = kw.pop("inline", False)             # callers execute the real body instead of the contract
        self.verify = kw.pop("verify", True)              # False: contract is trusted (listed as assumption)
        self.trusted_reason = kw.pop("trusted_reason", "")
        self.ghost = dict(kw.pop("ghost", {}))            # ghost parameters: name -> type (universally quantified)
        self.ghost_stmts = dict(kw.pop("ghost_stmts", {}))  # 'before:<stmt-ordinal>' / 'after:..' -> [ghost statements]
        self.locals = dict(kw.pop("locals", {}))          # type hints for locals the inference cannot decide
        self.lemma = kw.pop("lemma", False)
        self.provider = kw.pop("provider", None)
        self.notes = kw.pop("notes", "")
        self.kwonly = kw.pop("kwonly", {})
        self.provider_requires = dict(kw.pop("provider_requires", {}))  # provider name -> [exprs over idx, args, locals]
        self.provider_hints = dict(kw.pop("provider_hints", {}))        # provider name -> [ghost statements]
        self.assume_call_pre = list(kw.pop("assume_call_pre", []))    # callees whose preconditions are ASSUMED here (reported)
        self.pure_calls = list(kw.pop("pure_calls", []))   # method names assumed pure & provider-free (lenient only)
        self.call_requires = dict(kw.pop("call_requires", {}))  # callee qual -> [exprs] extra call-site obligations
        self.call_models = dict(kw.pop("call_models", {}))  # "self.f" -> spec expression for the value of self.f(...)
        # completeness of a generator: {"var": name, "type": T, "when": [clauses over params and var], "hints": {site: expr}}
        # -- every value `var` of type T satisfying `when` is yielded.  Proved with a ghost flag `found`.
        self.complete = kw.pop("complete", None)
        self.yield_seq = kw.pop("yield_seq", False)       # generator whose contract speaks about the whole yield sequence
        self.variants = list(kw.pop("variants", []))      # [{name, params, requires, ensures, raises, ...}] type cases
        self.source = kw.pop("source", qual)              # qualified name of the def in `file` (inherited methods)
        self.lenient = kw.pop("lenient", False)           # untracked values become havocs (Unknown) instead of errors
        self.asserts = kw.pop("asserts", "prove")         # 'prove': code asserts are obligations; 'raise': run-time checks
        self.isinstance_map = kw.pop("isinstance_map", {})
        self.aliases = kw.pop("aliases", {})
        self.self_invariant = kw.pop("self_invariant", True)  # include class invariant of self in requires/ensures
        if kw:
            raise TypeError(f"unknown contract keys {list(kw)} for {qual}")


class Registry:
    def __init__(self):
        self.classes = {}
        self.contracts = {}
        self.spec_fns = {}
        self.lemmas = {}
        self.providers = {}
        self.axioms = []
        self.named_tuples = {}
        self.enums = {}
        self.tuple_props = {}
        self.opaque_methods = {}
        self.opaque_raises = {}
        self.opaque_attrs = {}

    def klass(self, file, name, fields=None, bases=(), invariant=(), properties=(), ghost_fields=None,
              iter_delegate=None):
        self.classes[name] = ClassSpec(file, name, dict(fields or {}), list(bases), list(invariant), list(properties),
                                       dict(ghost_fields or {}), iter_delegate)

    def contract(self, file, qual, **kw):
        c = Contract(file, qual, **kw)
        self.contracts[qual] = c
        return c

    def spec_fn(self, name, fn):
        """fn(ex, st, *vals) -> Val : a specification-only function usable in contract expressions."""
        self.spec_fns[name] = fn

    def enum(self, name, members, t):
        """An enum.Enum class: its members are pairwise distinct constants of the opaque type t."""
        self.enums[name] = (list(members), t)

    def tuple_property(self, tup, name, file):
        """A read-only @property of a NamedTuple class: its real one-line body (`return <expr>`) is read from `file` and
        evaluated with `self` bound to the tuple."""
        self.tuple_props[(tup.nm, name)] = file

    def named_tuple(self, name, tup):
        self.named_tuples[name] = tup

    def variant(self, c, i):
        """The contract c specialised to its i-th variant (type case)."""
        import copy
        v = c.variants[i]
        d = copy.copy(c)
        d.params = dict(c.params)
        d.params.update(v.get("params", {}))
        d.requires = list(c.requires) + list(v.get("requires", []))
        d.ensures = list(c.ensures) + list(v.get("ensures", []))
        d.raises = list(c.raises) + list(v.get("raises", []))
        d.may_raise = list(c.may_raise) + list(v.get("may_raise", []))
        d.modifies = list(v.get("modifies", c.modifies))
        d.isinstance_map = dict(c.isinstance_map)
        d.isinstance_map.update(v.get("isinstance_map", {}))
        if "returns" in v:
            d.returns = v["returns"]
        if v.get("aliases"):
            d.aliases = dict(v["aliases"])
        d.variants = []
        d.variant_name = v["name"]
        return d

    def opaque_method(self, tname, method, returns, args=(), may_raise=None):
        """A pure, deterministic method of an opaque (user) type: an uninterpreted function of receiver and args (A2).
        may_raise: user code may also fail (interrupt, time-out, bug): every call forks an exceptional path raising it."""
        self.opaque_methods[(tname, method)] = (list(args), returns)
        if may_raise:
            self.opaque_raises[(tname, method)] = may_raise

    def opaque_attr(self, tname, attr, t):
        self.opaque_attrs[(tname, attr)] = t

    def provider(self, name, **kw):
        self.providers[name] = kw

    def field_type(self, cls, field):
        seen = set()
        todo = [cls]
        while todo:
            c = todo.pop(0)
            if c in seen or c not in self.classes:
                continue
            seen.add(c)
            cs = self.classes[c]
            if field in cs.fields:
                return cs.fields[field]
            if field in cs.ghost_fields:
                return cs.ghost_fields[field]
            todo.extend(cs.bases)
        return None

    def mro(self, cls):
        out, todo = [], [cls]
        while todo:
            c = todo.pop(0)
            if c in out:
                continue
            out.append(c)
            if c in self.classes:
                todo.extend(self.classes[c].bases)
        return out

    def find_method(self, cls, name):
        for c in self.mro(cls):
            q = f"{c}.{name}"
            if q in self.contracts:
                return self.contracts[q]
        return None

    def is_property(self, cls, name):
        for c in self.mro(cls):
            if c in self.classes and name in self.classes[c].properties:
                return True
        return False

    def class_invariants(self, cls):
        out = []
        for c in self.mro(cls):
            if c in self.classes:
                out.extend(self.classes[c].invariant)
        return out


REG = Registry()
klass = REG.klass
contract = REG.contract
spec_fn = REG.spec_fn
provider = REG.provider
named_tuple = REG.named_tuple
enum = REG.enum
tuple_property = REG.tuple_property
opaque_method = REG.opaque_method
opaque_attr = REG.opaque_attr
