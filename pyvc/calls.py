"""Call handling for the Executor (functions here are bound as Executor methods)."""
import ast
import z3
from . import ty
from .ty import Int, Bool, NoneT, Str, Opt, Seq, Tup, List, Deque, Dict, Set, Obj, Opaque, Fun
from .core import (MemView, Unknown, Untranslatable, ContractError, Val, PyConst, PyTuple, BoundMethod, FuncRef, Closure, ProviderCall,
                   View, State, Outcome, fresh, none_val, int_val, bool_val, type_heap_keys)

_parse_cache = {}


def parse_expr(src):
    if src not in _parse_cache:
        _parse_cache[src] = ast.parse(src.strip(), mode="eval").body
    return _parse_cache[src]


def simp(z):
    return z3.simplify(z)


# ---------------------------------------------------------------------------------------------- spec evaluation
def spec_eval(self, src, st, env=None, old=None, result=None, extra=None):
    """Evaluate a contract expression in state st (env replaced by `env` if given)."""
    node = parse_expr(src) if isinstance(src, str) else src
    s = st if env is None else State(env, st.heap, st.pc, st.next_ref, st.ghost, st.labels)
    if extra:
        s.env = dict(s.env)
        s.env.update(extra)
    saved = (self.spec, getattr(self, "old_st", None), getattr(self, "spec_result", None))
    self.spec, self.old_st = True, old if old is not None else saved[1]
    if result is not None:
        self.spec_result = result
    try:
        outs = list(self.ev(node, s))
        if len(outs) != 1:
            raise ContractError(f"contract expression forks: {src}")
        v, s2 = outs[0]
        if s2 is not s:
            # assumptions produced while evaluating (view axioms, ...) flow back
            st.pc[:] = s2.pc
        return v
    finally:
        self.spec, self.old_st, self.spec_result = saved


def spec_truth(self, src, st, **kw):
    v = self.spec_eval(src, st, **kw)
    saved = self.spec
    self.spec = True
    try:
        return self.truth(v, st)
    finally:
        self.spec = saved


def call_spec_fn(self, name, e, st):
    """Specification-only functions available in contract expressions."""
    if name == "old":
        if self.old_st is None:
            raise ContractError("old() without a pre-state")
        o = self.old_st
        s = State(dict(o.env) if st.env is not o.env else o.env, dict(o.heap), st.pc, o.next_ref, o.ghost, o.labels)
        # bound variables introduced by quantifiers in the current env stay visible
        for k, v in st.env.items():
            if k.startswith("$q_"):
                s.env[k[3:]] = v
                s.env[k] = v
        saved = self.old_st
        v, _ = self.ev1(e.args[0], s)
        self.old_st = saved
        return v
    if name == "at":     # at('label', expr): value of expr in the state recorded at a ghost label
        lab = e.args[0].value
        if lab not in st.labels:
            raise ContractError(f"unknown state label {lab}")
        o = st.labels[lab]
        s = State(dict(o.env), dict(o.heap), st.pc, o.next_ref, dict(o.ghost), o.labels)
        for k, v in st.env.items():
            if k.startswith("$q_"):
                s.env[k[3:]] = v
                s.env[k] = v
            elif k not in s.env and k not in s.ghost:
                s.env[k] = v          # a name that did not exist at the label: its current value (the HEAP is the label's)
        for k, v in st.ghost.items():
            if k not in s.ghost and k not in s.env:
                s.ghost[k] = v        # same for ghost names (loop counters, key enumerations) introduced later
        # cur(x) inside at(): the CURRENT value of the local x (a local re-assigned since the label), read in the label's heap
        stack = getattr(self, "_at_cur_env", None)
        if stack is None:
            stack = self._at_cur_env = []
        stack.append(st.env)
        try:
            v, _ = self.ev1(e.args[1], s)
        finally:
            stack.pop()
        return v
    if name == "cur":
        stack = getattr(self, "_at_cur_env", None)
        if not stack or not isinstance(e.args[0], ast.Name):
            raise ContractError("cur(name) is only meaningful inside at(...)")
        if e.args[0].id not in stack[-1]:
            raise ContractError(f"cur({e.args[0].id}): no such local")
        return stack[-1][e.args[0].id]
    if name == "result":
        return self.spec_result
    if name in ("forall", "exists", "forall_t"):
        lam = e.args[0]
        if not isinstance(lam, ast.Lambda):
            raise ContractError("forall/exists need a lambda")
        names = [a.arg for a in lam.args.args]
        sorts = []
        defaults = lam.args.defaults
        # types given as lambda defaults: forall(lambda i, c=ClassKey: ...)
        dmap = {}
        for a, d in zip(lam.args.args[len(lam.args.args) - len(defaults):], defaults):
            dmap[a.arg] = d
        s = State(dict(st.env), st.heap, st.pc, st.next_ref, st.ghost, st.labels)
        bound = []
        for n in names:
            t = Int
            if n in dmap:
                t = self.type_from_node(dmap[n])
            z = fresh(n, t.sort())
            bound.append(z)
            s.env[n] = Val(t, z)
            s.env["$q_" + n] = Val(t, z)
        npc = len(st.pc)
        saved_b = getattr(self, "_cur_bound_ids", None)
        self._cur_bound_ids = set(saved_b or ()) | {b.get_id() for b in bound}
        try:
            body, s2 = self.ev1(lam.body, s)
        finally:
            self._cur_bound_ids = saved_b
        bz = self.truth(body, s2)
        extra = list(s2.pc[npc:])
        del st.pc[npc:]
        # facts produced while evaluating the body that mention bound variables stay inside the quantifier
        keep, inside = [], []
        bset = {b.get_id() for b in bound}
        for x in extra:
            (inside if _mentions(x, bset) else keep).append(x)
        for x in keep:
            st.assume(x)
        # typing facts about list lengths (len >= 0) met at a quantified position: as an antecedent they would make an ASSUMED
        # formula useless exactly where it is needed (nothing else says that the length of the j-th row is non-negative), so they
        # are stated on their own, for every value of the bound variables (every entry of a length array is non-negative)
        lens = set()
        for hp in [s2.heap] + [getattr(l, "heap", {}) for l in (st.labels or {}).values()]:
            for k_, a_ in hp.items():
                if k_[0] == "len":
                    lens.add(a_.get_id())
        typing = [x for x in inside if _is_len_nonneg(x, lens)] if name == "forall_t" else []      # (opt-in: forall_t only)
        if typing:
            inside = [x for x in inside if not any(x is t_ for t_ in typing)]
            for x in typing:
                st.assume(z3.ForAll(bound, x))
        if name == "forall_t":
            # "triggered" universal: the body is guarded by an uninterpreted marker tr(j) per integer bound variable, which is also
            # the only pattern.  As a goal it is at least as strong as the plain forall (tr is arbitrary); as a hypothesis it is
            # instantiated exactly at the skolem constants of forall_t goals.  For bodies whose only terms over the bound variable
            # are interpreted (sequence indexing, arithmetic), for which z3 infers no usable pattern.
            tr = z3.Function("tr!", z3.IntSort(), z3.BoolSort())
            ints = [b for b in bound if b.sort() == z3.IntSort()]
            if not ints:
                raise ContractError("forall_t needs an integer bound variable")
            guard = z3.And(*[tr(b) for b in ints])
            pat = z3.MultiPattern(*[tr(b) for b in ints]) if len(ints) > 1 else tr(ints[0])
            z = z3.ForAll(bound, z3.Implies(z3.And(guard, *inside), bz), patterns=[pat])
        elif name == "forall":
            z = z3.ForAll(bound, z3.Implies(z3.And(*inside), bz) if inside else bz)
        else:
            z = z3.Exists(bound, z3.And(*inside, bz) if inside else bz)
        return bool_val(z)
    if name == "each":      # each(lst, lambda x: body): body holds for every item of the heap list / deque lst
        # stated over ABSOLUTE positions of the element array (an item of a deque sits at arr[off + j]; with the offset inside the
        # index neither solver instantiates), with the array read as the pattern
        lst = self.ev1(e.args[0], st)[0]
        lam = e.args[1]
        if not (isinstance(lst, Val) and isinstance(lst.t, List) and isinstance(lam, ast.Lambda) and len(lam.args.args) == 1):
            raise ContractError("each(list, lambda x: ...)")
        arr, off, n = z3.simplify(self.list_arr(st, lst)), self.list_off(st, lst), self.list_len(st, lst)
        p = fresh("p", z3.IntSort())
        x = Val(lst.t.elt, z3.Select(arr, p))
        s = State(dict(st.env), st.heap, st.pc, st.next_ref, st.ghost, st.labels)
        nm = lam.args.args[0].arg
        s.env[nm] = x
        s.env["$q_" + nm] = x
        npc = len(st.pc)
        saved_b = getattr(self, "_cur_bound_ids", None)
        self._cur_bound_ids = set(saved_b or ()) | {p.get_id()}
        try:
            body, s2 = self.ev1(lam.body, s)
        finally:
            self._cur_bound_ids = saved_b
        bz = self.truth(body, s2)
        extra = list(s2.pc[npc:])
        del st.pc[npc:]
        inside = []
        for z in extra:
            (inside if _mentions(z, {p.get_id()}) else []).append(z) if _mentions(z, {p.get_id()}) else st.assume(z)
        qbody = z3.Implies(z3.And(off <= p, p < off + n, *inside), bz)
        try:
            return bool_val(z3.ForAll([p], qbody, patterns=[z3.Select(arr, p)]))
        except z3.Z3Exception:
            # the array term is not admissible as a pattern (it contains an if-then-else after a merge): name the array (a
            # definitional equality with a fresh constant) so that its reads can still serve as the trigger
            a = fresh("eacharr", arr.sort())
            st.assume(a == arr)
            qb2 = z3.substitute(qbody, (z3.Select(arr, p), z3.Select(a, p)))
            return bool_val(z3.ForAll([p], qb2, patterns=[z3.Select(a, p)]))
    if name == "implies":
        a = self.truth(self.ev1(e.args[0], st)[0], st)
        b = self.truth(self.ev1(e.args[1], st)[0], st)
        return bool_val(z3.Implies(a, b))
    if name == "iff":
        a = self.truth(self.ev1(e.args[0], st)[0], st)
        b = self.truth(self.ev1(e.args[1], st)[0], st)
        return bool_val(a == b)
    if name == "ite":
        c = self.truth(self.ev1(e.args[0], st)[0], st)
        a, b = self.ev1(e.args[1], st)[0], self.ev1(e.args[2], st)[0]
        m = self.merge_vals(c, self.guess_tuple(a, st), self.guess_tuple(b, st), st)
        if m is None:
            raise ContractError("ite branches of different types")
        return m
    if name == "is_none":
        v = self.ev1(e.args[0], st)[0]
        return bool_val(self.equal(v, none_val(), st))
    if name == "val":     # value of an Optional assumed not None
        v = self.ev1(e.args[0], st)[0]
        if isinstance(v.t, Opt):
            return Val(v.t.elt, v.t.val(v.z))
        return v
    if name == "fresh":   # fresh(x): x was allocated by this call
        v = self.ev1(e.args[0], st)[0]
        return bool_val(v.z >= self.old_st.next_ref)
    if name == "allocated":   # allocated(x): the reference x denotes an object that exists in the state where this is evaluated
        v = self.ev1(e.args[0], st)[0]
        return bool_val(z3.And(v.z >= 0, v.z < st.next_ref))
    if name == "same":    # same(a, b): reference identity
        a, b = self.ev1(e.args[0], st)[0], self.ev1(e.args[1], st)[0]
        if isinstance(a, Unknown) or isinstance(b, Unknown):
            return bool_val(fresh("unk", z3.BoolSort()))      # e.g. last_arg of a call that did not happen on this path
        return bool_val(a.z == b.z)
    if name in ("last_result", "last_arg", "called_after"):
        q = e.args[0].value
        rec = st.ghost.get("$last:" + q)
        if name == "called_after":
            other = st.ghost.get("$last:" + e.args[1].value)
            return bool_val(rec is not None and (other is None or rec[0] > other[0]))
        if rec is None:
            # no such call on this path: an unconstrained value, so that the obligation mentioning it fails
            return Unknown(f"no call of {q} on this path")
        if name == "last_result":
            return rec[2]
        return rec[1][e.args[1].value]
    if name == "wf":      # wf(obj): the class invariant of obj's class holds for obj
        v = self.ev1(e.args[0], st)[0]
        if not (isinstance(v, Val) and isinstance(v.t, Obj)):
            raise ContractError("wf() needs an object")
        zs = []
        for inv in self.reg.class_invariants(v.t.cls):
            s2 = State(dict(st.env, self=v), st.heap, st.pc, st.next_ref, st.ghost, st.labels)
            zs.append(self.truth(self.ev1(parse_expr(inv), s2)[0], s2))
        return bool_val(z3.And(*zs) if zs else z3.BoolVal(True))
    if name == "remap":     # remap(m, a, b): the map y -> (b if m[y] == a else m[y])
        m, a, b = (self.ev1(x, st)[0] for x in e.args)
        a, b = self.coerce(a, m.t.v, st), self.coerce(b, m.t.v, st)
        y = fresh("y", m.t.k.sort())
        new = fresh("remap", m.z.sort())
        st.assume(z3.ForAll([y], z3.Select(new, y) == z3.If(z3.Select(m.z, y) == a.z, b.z, z3.Select(m.z, y))))
        return Val(m.t, new)
    if name == "madd":      # madd(m, k): the ghost set/map m with key k set to True
        m, k = (self.ev1(x, st)[0] for x in e.args)
        k = self.coerce(self.guess_tuple(k, st), m.t.k, st)
        return Val(m.t, z3.Store(m.z, k.z, z3.BoolVal(True)))
    if name == "mset":      # mset(m, k, v): the ghost map m with key k set to v
        m, k, v = (self.ev1(x, st)[0] for x in e.args)
        k = self.coerce(self.guess_tuple(k, st), m.t.k, st)
        v = self.coerce(self.guess_tuple(v, st), m.t.v, st)
        return Val(m.t, z3.Store(m.z, k.z, v.z))
    if name == "keys_are":     # keys_are(d, "a", "b", ...): the key set of d is exactly the listed strings
        d = self.ev1(e.args[0], st)[0]
        ks = [z3.StringVal(x.value) for x in e.args[1:]]
        k = fresh("k", z3.StringSort())
        dom = self.dom(st, d)
        return bool_val(z3.ForAll([k], z3.Select(dom, k) == (z3.Or(*[k == x for x in ks]) if ks else z3.BoolVal(False))))
    if name == "ssum":
        v = self.ev1(e.args[0], st)[0]
        from .engine import ssum_fn
        return int_val(ssum_fn()(self.coerce(self.guess_tuple(v, st), Seq(Int), st).z))
    fn = self.reg.spec_fns.get(name)
    if fn is not None:
        args = [self.ev1(a, st)[0] for a in e.args]
        return fn(self, st, *args)
    return None


def _is_len_nonneg(x, lens):
    """x is `Select(A, r) >= 0` (or `0 <= Select(A, r)`) for a list-length heap array A."""
    if not (z3.is_app(x) and x.num_args() == 2):
        return False
    k = x.decl().kind()
    if k == z3.Z3_OP_GE:
        a, b = x.arg(0), x.arg(1)
    elif k == z3.Z3_OP_LE:
        b, a = x.arg(0), x.arg(1)
    else:
        return False
    if not (z3.is_int_value(b) and b.as_long() == 0 and z3.is_select(a)):
        return False
    arr = a.arg(0)
    while z3.is_store(arr):
        arr = arr.arg(0)
    return arr.get_id() in lens or (z3.is_const(arr) and arr.decl().name().startswith("H0_len_"))


def _mentions(z, idset):
    seen = set()
    todo = [z]
    while todo:
        x = todo.pop()
        if x.get_id() in seen:
            continue
        seen.add(x.get_id())
        if x.get_id() in idset:
            return True
        if z3.is_quantifier(x):
            todo.append(x.body())
        else:
            todo.extend(x.children())
    return False


SPEC_NAMES = {"allocated", "cur", "each", "madd", "mset", "remap", "keys_are", "wf", "last_result", "last_arg", "called_after", "old", "at", "result", "forall", "forall_t", "exists", "implies", "iff", "ite", "is_none", "val", "fresh", "same",
              "ssum"}


# ---------------------------------------------------------------------------------------------- call dispatch
def call(self, e, st):
    f = e.func
    cm = getattr(self.cur_contract, "call_models", None) if getattr(self, "cur_contract", None) else None
    if cm and not self.spec:
        key = ast.unparse(f)
        if key in cm:
            self.assume_log(f"call model: {key}(...) evaluates to `{cm[key]}`")
            for _, s2 in self.eval_args(e, st):          # the arguments are still evaluated (for their effects)
                yield self.spec_eval(cm[key], s2), s2
            return
    # xs.extend(<factory>() for _ in range(n)) with the factory modelled as "<new list>": n new, pairwise distinct, empty lists
    if cm and not self.spec and isinstance(f, ast.Attribute) and f.attr == "extend" and len(e.args) == 1 \
            and isinstance(e.args[0], ast.GeneratorExp) and isinstance(e.args[0].elt, ast.Call) \
            and cm.get(ast.unparse(e.args[0].elt.func)) == "<new list>" and len(e.args[0].generators) == 1 \
            and not e.args[0].generators[0].ifs:
        recv, s1 = self.ev1(f.value, st)
        if isinstance(recv, Val) and isinstance(recv.t, List) and isinstance(recv.t.elt, List):
            self.assume_log(f"call model: {ast.unparse(e.args[0].elt.func)}() allocates a new empty list")
            rows = self.bulk_empty_lists(e.args[0], s1, Seq(recv.t.elt), any_elt=True)
            self.list_extend(s1, recv, self.view_of(rows, s1))
            yield none_val(), s1
            return
    # specification functions
    if isinstance(f, ast.Name) and self.spec and (f.id in SPEC_NAMES or f.id in self.reg.spec_fns) \
            and f.id not in st.env:
        v = self.call_spec_fn(f.id, e, st)
        if v is not None:
            yield v, st
            return
    if isinstance(f, ast.Name) and f.id == "result" and self.spec:
        yield self.spec_result, st
        return
    # builtins that look at their argument's syntax
    if isinstance(f, ast.Name) and f.id not in st.env:
        nm = f.id
        if nm in ("all", "any") and len(e.args) == 1 and isinstance(e.args[0], ast.GeneratorExp):
            yield self.quant_over(e.args[0], st, None, nm == "all")
            return
        if nm == "next" and len(e.args) == 1 and isinstance(e.args[0], ast.GeneratorExp) and not self.spec \
                and len(e.args[0].generators) == 1:
            yield from self.next_of_genexp(e.args[0], st)
            return
        if nm == "tuple" and len(e.args) == 1 and isinstance(e.args[0], ast.GeneratorExp) and not self.spec:
            g = e.args[0]
            elt = g.elt
            if isinstance(elt, ast.Dict) or (isinstance(elt, ast.IfExp) and isinstance(elt.body, ast.Dict)
                                              and isinstance(elt.orelse, ast.Dict)):
                want = getattr(self, "expect_type", None)
                if isinstance(want, Opt):
                    want = want.elt
                if isinstance(want, Seq) and isinstance(want.elt, Dict) and len(g.generators) == 1 and not g.generators[0].ifs:
                    yield self.bulk_dicts(g, st, want), st
                    return
            want = getattr(self, "expect_type", None)
            if isinstance(want, Opt):
                want = want.elt
            if isinstance(want, Seq) and isinstance(want.elt, Set) and len(g.generators) == 1 and not g.generators[0].ifs:
                yield self.bulk_sets(g, st, want), st
                return
            if isinstance(want, Seq) and isinstance(want.elt, List) and len(g.generators) == 1 and not g.generators[0].ifs \
                    and isinstance(elt, ast.Call) and isinstance(elt.func, ast.Name) and elt.func.id in ("deque", "list") \
                    and not elt.args and not elt.keywords:
                yield self.bulk_empty_lists(g, st, want), st
                return
        if nm == "cast" and len(e.args) == 2:
            yield from self.ev(e.args[1], st)
            return
        if nm == "isinstance":
            for v, s in self.ev(e.args[0], st):
                yield bool_val(self.isinstance_static(v, e.args[1], s)), s
            return
    for callee, s1 in self.ev(f, st):
        for (args, kwargs), s2 in self.eval_args(e, s1):
            yield from self.apply(callee, args, kwargs, s2, e)


def eval_args(self, e, st):
    def rec(i, acc, s):
        if i == len(e.args):
            yield from rec_kw(0, acc, {}, s)
            return
        a = e.args[i]
        if isinstance(a, ast.Starred):
            for v, s2 in self.ev(a.value, s):
                v = self.iter_value(v, s2)
                if isinstance(v, PyTuple):
                    yield from rec(i + 1, acc + v.items, s2)
                elif self.lenient:
                    yield from rec(i + 1, acc + [Unknown("star-args")], s2)
                else:
                    raise Untranslatable("star-args of symbolic length")
            return
        for v, s2 in self.ev(a, s):
            yield from rec(i + 1, acc + [v], s2)

    def rec_kw(i, acc, kw, s):
        if i == len(e.keywords):
            yield (acc, kw), s
            return
        k = e.keywords[i]
        if k.arg is None:
            vals = list(self.ev(k.value, s)) if isinstance(k.value, ast.Name) else []
            if len(vals) == 1 and isinstance(vals[0][0], Val) and isinstance(vals[0][0].t, Dict):
                # f(**d) with a tracked dictionary d: handed on whole (bound to the callee's own **kwargs parameter)
                kw2 = dict(kw)
                kw2["$starstar"] = vals[0][0]
                yield from rec_kw(i + 1, acc, kw2, vals[0][1])
                return
            if self.lenient:
                self.assume_log("lenient: **kwargs forwarded unchanged (keyword arguments not tracked take their defaults)")
                yield from rec_kw(i + 1, acc, kw, s)
                return
            raise Untranslatable("**kwargs call")
        for v, s2 in self.ev(k.value, s):
            kw2 = dict(kw)
            kw2[k.arg] = v
            yield from rec_kw(i + 1, acc, kw2, s2)
    yield from rec(0, [], st)


def apply(self, callee, args, kwargs, st, node):
    if not self.spec:
        self.cur_site = self.site(node)
    if isinstance(callee, PyConst) and isinstance(callee.v, tuple):
        tag = callee.v[0]
        if tag == "builtin":
            yield from self.call_builtin(callee.v[1], args, kwargs, st, node)
            return
        if tag == "dotted":
            yield from self.call_builtin(callee.v[1], args, kwargs, st, node)
            return
        if tag == "exc":
            yield PyConst(("excinst", callee.v[1])), st
            return
        if tag == "attr":
            # module attribute, e.g. itertools.chain / time.time / zlib.compress
            yield from self.call_builtin(".".join(str(x) for x in callee.v[1:]) if not isinstance(callee.v[1], tuple)
                                         else f"{callee.v[1][1]}.{callee.v[2]}", args, kwargs, st, node)
            return
        if tag == "module":
            raise Untranslatable(f"call of module {callee.v[1]}")
    if isinstance(callee, BoundMethod):
        yield from self.call_method(callee.recv, callee.name, args, kwargs, st, node)
        return
    if isinstance(callee, FuncRef) and callee.qual in self.reg.named_tuples:
        t = self.reg.named_tuples[callee.qual]
        vals = list(args) + [kwargs[n] for n in (t.names or [])[len(args):] if n in kwargs]
        if len(vals) != len(t.elts):
            raise Untranslatable(f"{callee.qual}(...) with defaults")
        zs = [self.coerce(self.guess_tuple(v, st), et, st).z for v, et in zip(vals, t.elts)]
        yield Val(t, t.mk(*zs)), st
        return
    if isinstance(callee, FuncRef):
        c = self.reg.contracts.get(callee.qual) or self.reg.contracts.get(callee.qual.split(".")[-1]) \
            if "." in callee.qual and callee.qual.split(".")[0] not in self.reg.classes else self.reg.contracts.get(callee.qual)
        if c is not None:
            if c.yields:
                yield self.call_generator_view(c, args, kwargs, st, node), st
                return
            yield from self.call_contract(c, args, kwargs, st, node)
            return
        if callee.qual in self.reg.classes or callee.qual + ".__init__" in self.reg.contracts:
            yield from self.construct(callee.qual, args, kwargs, st, node)
            return
        # an instance of a generic class modelled per instantiation (DefaultList -> DefaultListInt): the expected type names
        # the model class, whose constructor contract is read from the generic class's real __init__ (contract `source`)
        want = getattr(self, "expect_type", None)
        if isinstance(want, Opt):
            want = want.elt
        if isinstance(want, Obj):
            ci = self.reg.contracts.get(want.cls + ".__init__")
            if ci is not None and getattr(ci, "source", None) == callee.qual + ".__init__":
                yield from self.construct(want.cls, args, kwargs, st, node)
                return
        if self.lenient:
            yield self.unknown_call(args, kwargs, st, f"uncontracted function {callee.qual}"), st
            return
        raise Untranslatable(f"call of uncontracted function {callee.qual}")
    if isinstance(callee, Closure):
        yield from self.call_closure(callee, args, kwargs, st)
        return
    if isinstance(callee, ProviderCall):
        yield from self.call_provider(callee, args, kwargs, st, node)
        return
    if isinstance(callee, Val) and isinstance(callee.t, Fun):
        yield from self.call_provider(ProviderCall(callee.t.nm, callee.z), args, kwargs, st, node)
        return
    if isinstance(callee, Unknown) or (self.lenient and isinstance(callee, PyConst)):
        yield self.unknown_call(args, kwargs, st, f"call of {callee!r}"), st
        return
    raise Untranslatable(f"call of {callee!r}")


def unknown_call(self, args, kwargs, st, why):
    """A call the encoding does not track: the contents of every mutable argument are havocked, result unknown."""
    if not self.lenient:
        raise Untranslatable(why + " (contract is not lenient)")
    for a in list(args) + list(kwargs.values()):
        if isinstance(a, Val) and a.t.mutable:
            self.havoc_loc(("contents", a), st)
    self.assume_log("lenient: untracked calls (library helpers such as itertools.product, functools.partial, sympy, "
                    "stored parameter maps) do not call term providers and only mutate their arguments")
    return Unknown(why)


def call_closure(self, clo, args, kwargs, st):
    node = clo.node
    if isinstance(node, ast.Lambda):
        env = dict(clo.env)
        for a, v in zip(node.args.args, args):
            env[a.arg] = v
        s = State(env, st.heap, st.pc, st.next_ref, st.ghost, st.labels)
        for v, s2 in self.ev(node.body, s):
            st.heap, st.next_ref = s2.heap, s2.next_ref
            if s2.pc is not st.pc:
                st.pc[:] = s2.pc
            yield v, st
        return
    raise Untranslatable("local function call")


def isinstance_static(self, v, cls_node, st):
    txt = ast.unparse(cls_node)
    m = getattr(self.c, "isinstance_map", None) or {}
    if isinstance(cls_node, ast.Tuple):
        return z3.Or(*[self.isinstance_static(v, c, st) for c in cls_node.elts])
    if isinstance(v, Val) and isinstance(v.t, Opt) and txt not in ("NoneType",):
        # Optional value: None is an instance of no class; otherwise the wrapped value decides
        inner = Val(v.t.elt, v.t.val(v.z))
        return z3.And(z3.Not(v.t.is_none(v.z)), self.isinstance_static(inner, cls_node, st))
    if txt in m:
        want = m[txt]
        if isinstance(v, Val):
            if callable(want):
                return want(self, v, st)
            return z3.BoolVal(v.t.name() == want or (isinstance(v.t, Obj) and want in self.reg.mro(v.t.cls)))
        if isinstance(v, Unknown):
            return self.isinstance_unknown(v, txt)      # an untracked value: its class is not known (never "False")
        return z3.BoolVal(False)
    if isinstance(v, Val):
        if txt == "int":
            return z3.BoolVal(v.t in (Int, Bool))
        if txt == "bytes":
            return z3.BoolVal(False) if v.t in (Int, Bool) else self.isinstance_unknown(v, txt)
        if isinstance(v.t, Obj):
            if txt in self.reg.mro(v.t.cls):
                return z3.BoolVal(True)
            if txt in self.reg.classes and v.t.cls in self.reg.mro(txt):
                # the tested class is a SUBCLASS of the declared type: the dynamic type decides (declared types stand for
                # "this class or a subclass"); never answer False statically
                return self.isinstance_unknown(v, txt)
            return z3.BoolVal(False)
        if isinstance(v.t, Opaque):
            if v.t.nm == txt:
                return z3.BoolVal(True)
    if isinstance(v, PyConst) and isinstance(v.v, tuple) and v.v[0] == "excinst":
        from .engine import exc_matches
        return z3.BoolVal(exc_matches(v.v[1], txt))
    return self.isinstance_unknown(v, txt)


def isinstance_unknown(self, v, txt):
    if self.lenient:
        return fresh("unk_isinstance", z3.BoolSort())
    raise Untranslatable(f"isinstance({v!r}, {txt}) not statically decidable; add isinstance_map to the contract")


# ---------------------------------------------------------------------------------------------- builtins
def call_builtin(self, name, args, kwargs, st, node):
    a = [self.iter_value(x, st) for x in args]
    want0 = getattr(self, "expect_type", None)
    if isinstance(want0, Opt):
        self.expect_type = want0.elt
        try:
            yield from self.call_builtin(name, args, kwargs, st, node)
        finally:
            self.expect_type = want0
        return
    if name == "len":
        x = a[0]
        if isinstance(x, Unknown) and self.lenient:
            n_ = fresh("unk_len", z3.IntSort())
            st.assume(n_ >= 0)
            yield int_val(n_), st
            return
        if isinstance(x, Val) and isinstance(x.t, Opt) and isinstance(x.t.elt, (Seq, List, Dict, Set)):
            x = self.coerce(x, x.t.elt, st)          # len(None) would be a TypeError: non-None is an obligation
        if isinstance(x, PyTuple):
            yield int_val(len(x.items)), st
        elif isinstance(x, View):
            yield int_val(x.length), st
        elif isinstance(x, Val) and isinstance(x.t, Seq):
            yield int_val(self.seq_len(x)), st
        elif isinstance(x, Val) and isinstance(x.t, List):
            n = self.list_len(st, x)
            st.assume(n >= 0)
            yield int_val(n), st
        elif isinstance(x, Val) and isinstance(x.t, (Dict, Set)):
            self.card_axioms(st, x)
            yield int_val(self.card(st, x)), st
        elif isinstance(x, Val) and isinstance(x.t, Obj):
            yield from self.call_method(x, "__len__", [], {}, st, node)
        else:
            raise Untranslatable(f"len of {x!r}")
        return
    if name == "sum":
        x = a[0]
        if isinstance(x, tuple) and x and x[0] == "filtered":
            raise Untranslatable("sum over filtered comprehension")
        from .engine import ssum_fn
        v = x if isinstance(x, Val) and isinstance(x.t, Seq) else self.materialise(self.view_of(x, st), st, Int)
        if isinstance(v.t.elt, Opt) and v.t.elt.elt == Int:
            v = self.unopt_seq(v, st)
        elif v.t.elt != Int:
            v = self.materialise(self.view_of(v, st), st, Int)
        r = ssum_fn()(v.z)
        if len(a) > 1:
            r = r + self.as_int(a[1], st).z
        yield int_val(r), st
        return
    if name in ("all", "any"):
        view = self.view_of(a[0], st)
        i = fresh("q", z3.IntSort())
        saved_b = getattr(self, "_cur_bound_ids", None)
        self._cur_bound_ids = set(saved_b or ()) | {i.get_id()}
        try:
            body = self.truth(view.at(i), st)
        finally:
            self._cur_bound_ids = saved_b
        g = z3.And(0 <= i, i < view.length)
        yield bool_val(z3.ForAll([i], z3.Implies(g, body)) if name == "all" else z3.Exists([i], z3.And(g, body))), st
        return
    if name in ("max", "min") and any(isinstance(x, Unknown) or (isinstance(x, PyConst) and isinstance(x.v, float)) for x in a):
        yield Unknown(name), st
        return
    if name in ("max", "min") and len(a) == 1 and not kwargs:
        v0 = self.view_of(a[0], st)
        n0 = simp(v0.length)
        if z3.is_int_value(n0) and 1 <= n0.as_long() <= 4:
            items = [v0.at(z3.IntVal(i)) for i in range(n0.as_long())]
            if all(isinstance(x, PyTuple) and len(x.items) == 2 for x in items):
                best = [self.as_int(items[0].items[0], st).z, self.as_int(items[0].items[1], st).z]
                for it in items[1:]:
                    p, q = self.as_int(it.items[0], st).z, self.as_int(it.items[1], st).z
                    gt = z3.Or(p > best[0], z3.And(p == best[0], q > best[1]))
                    take = gt if name == "max" else z3.Not(z3.Or(gt, z3.And(p == best[0], q == best[1])))
                    best = [z3.If(take, p, best[0]), z3.If(take, q, best[1])]
                yield PyTuple([int_val(best[0]), int_val(best[1])]), st
                return
    if name in ("max", "min"):
        if len(a) >= 2:
            z = self.as_int(a[0], st).z
            for o in a[1:]:
                oz = self.as_int(o, st).z
                z = z3.If(oz > z, oz, z) if name == "max" else z3.If(oz < z, oz, z)
            yield int_val(z), st
            return
        view = self.view_of(a[0], st)
        m = fresh(name, z3.IntSort())
        i, j = fresh("i", z3.IntSort()), fresh("j", z3.IntSort())
        n = view.length
        cmp = (lambda x: x <= m) if name == "max" else (lambda x: x >= m)
        if "key" in kwargs:
            raise Untranslatable("max/min with key")
        if "default" in kwargs:
            d = self.as_int(kwargs["default"], st).z
            st.assume(z3.Implies(n <= 0, m == d))
        else:
            self.fork_raise(st, n <= 0, "ValueError")
        st.assume(z3.Implies(n > 0, z3.And(
            z3.ForAll([i], z3.Implies(z3.And(0 <= i, i < n), cmp(self.as_int(view.at(i), st).z))),
            z3.Exists([j], z3.And(0 <= j, j < n, self.as_int(view.at(j), st).z == m)))))
        yield int_val(m), st
        return
    if name == "abs":
        z = self.as_int(a[0], st).z
        yield int_val(z3.If(z >= 0, z, -z)), st
        return
    if name == "bool":
        yield bool_val(self.truth(a[0], st) if a else z3.BoolVal(False)), st
        return
    if name == "int":
        if not a:
            yield int_val(0), st
        else:
            yield self.as_int(a[0], st), st
        return
    if name == "range":
        zs = [self.as_int(x, st).z for x in a]
        lo, hi = (z3.IntVal(0), zs[0]) if len(zs) == 1 else (zs[0], zs[1])
        if len(zs) == 3:
            stp = simp(zs[2])
            if z3.is_int_value(stp) and stp.as_long() == -1:
                n = z3.If(lo > hi, lo - hi, 0)
                yield View(n, lambda i, lo=lo: int_val(lo - i), Int, distinct=True), st
                return
            raise Untranslatable("range with step")
        n = z3.If(hi > lo, hi - lo, 0)
        yield View(n, lambda i, lo=lo: int_val(lo + i), Int, distinct=True), st
        return
    if name == "enumerate":
        v = self.view_of(a[0], st)
        start = self.as_int(a[1], st).z if len(a) > 1 else z3.IntVal(0)
        yield View(v.length, lambda i: PyTuple([int_val(start + i), v.at(i)]), None), st
        return
    if name == "zip":
        vs = [self.view_of(x, st) for x in a]
        n = vs[0].length
        for v in vs[1:]:
            n = z3.If(v.length < n, v.length, n)
        yield View(n, lambda i: PyTuple([v.at(i) for v in vs]), None), st
        return
    if name == "reversed":
        v = self.view_of(a[0], st)
        yield View(v.length, lambda i: v.at(v.length - 1 - i), v.elt_t), st
        return
    if name in ("deepcopy", "copy.deepcopy") and isinstance(a[0], Val) and isinstance(a[0].t, Dict) \
            and isinstance(a[0].t.v, Set) and not a[0].t.v.k.mutable and not a[0].t.k.mutable:
        # deepcopy of a dictionary of sets of immutable values: a new dictionary with the same keys whose values are NEW,
        # pairwise distinct sets with the same members (bulk allocation along an enumeration of the keys)
        d = a[0]
        t, ts = d.t, d.t.v
        kv = self.view_of(d, st)                      # enumeration of the keys (duplicate free, complete)
        n = kv.length
        st.assume(n >= 0)
        new = self.alloc(st, t)
        base = st.next_ref
        st.next_ref = st.next_ref + n
        r, kk, k2 = fresh("r", z3.IntSort()), fresh("k", t.k.sort()), fresh("k", t.k.sort())
        dom0, val0 = self.dom(st, d), self.dvals(st, d)
        # the copy of the set stored under key k is the new object base + idx(k); idx numbers the keys 0..n-1 (exists since
        # the dictionary has n keys)
        idx = z3.Function(str(fresh("dcidx", z3.IntSort())), t.k.sort(), z3.IntSort())
        valn = fresh("dcval", val0.sort())
        st.assume(z3.ForAll([kk], z3.Implies(z3.Select(dom0, kk), z3.And(0 <= idx(kk), idx(kk) < n,
                                                                         z3.Select(valn, kk) == base + idx(kk)))))
        st.assume(z3.ForAll([kk, k2], z3.Implies(z3.And(z3.Select(dom0, kk), z3.Select(dom0, k2), idx(kk) == idx(k2)), kk == k2)))
        # well-typed heap: the sets stored in the original are allocated objects (older than the copies)
        st.assume(z3.ForAll([kk], z3.Implies(z3.Select(dom0, kk), z3.And(0 <= z3.Select(val0, kk), z3.Select(val0, kk) < new.z))))
        self.set_dom(st, new, dom0)
        kvk = ("val", t.name(), t.k, t.v)
        self.heap.set(st, kvk, z3.Store(self.heap.get(st, kvk), new.z, valn))
        self.set_card(st, new, self.card(st, d))
        sd0 = self.heap.get(st, ("dom", ts.name(), ts.k))
        sc0 = self.heap.get(st, ("card", ts.name()))
        sd1, sc1 = fresh("dcdom", sd0.sort()), fresh("dccard", sc0.sort())
        outside = z3.Or(r < base, r >= base + n)
        st.assume(z3.ForAll([r], z3.Implies(outside, z3.And(z3.Select(sd1, r) == z3.Select(sd0, r),
                                                            z3.Select(sc1, r) == z3.Select(sc0, r)))))
        st.assume(z3.ForAll([kk], z3.Implies(z3.Select(dom0, kk), z3.And(
            z3.Select(sd1, base + idx(kk)) == z3.Select(sd0, z3.Select(val0, kk)),
            z3.Select(sc1, base + idx(kk)) == z3.Select(sc0, z3.Select(val0, kk))))))
        self.heap.set(st, ("dom", ts.name(), ts.k), sd1)
        self.heap.set(st, ("card", ts.name()), sc1)
        yield new, st
        return
    if name in ("copy", "copy.copy"):
        x = a[0]
        if isinstance(x, Val) and isinstance(x.t, Obj):
            new = Val(x.t, self.new_ref(st))
            self.unshared(st, new)
            # shallow copy: same field values
            for k in self.all_keys_of(x.t):
                arr = self.heap.get(st, k)
                self.heap.set(st, k, z3.Store(arr, new.z, z3.Select(arr, x.z)))
            yield new, st
            return
        if self.lenient:
            yield self.unknown_call(args, kwargs, st, "copy of an untracked value"), st
            return
        raise Untranslatable("copy of a non-object")
    if name == "map" and isinstance(args[0], PyConst) and args[0].v in (("builtin", "copy"), ("dotted", "copy.copy")):
        # map(copy, seq): len(seq) fresh objects (bulk allocation); field values of the copies are not tracked
        src = self.view_of(a[1], st)
        et = src.elt_t
        if not isinstance(et, Obj):
            probe = src.at(fresh("p", z3.IntSort()))
            et = probe.t if isinstance(probe, Val) else None
        if not isinstance(et, Obj):
            raise Untranslatable("map(copy, ...) over non-objects")
        base = st.next_ref
        n = src.length
        st.assume(n >= 0)
        st.next_ref = st.next_ref + n
        for k in self.all_keys_of(et):       # the copies' fields: unknown (havoc above the old allocation bound)
            arr = self.heap.get(st, k)
            new_arr = fresh("hv", arr.sort())
            r = fresh("r", z3.IntSort())
            st.assume(z3.ForAll([r], z3.Implies(r < base, z3.Select(new_arr, r) == z3.Select(arr, r))))
            self.heap.set(st, k, new_arr)
        yield View(n, lambda i, base=base: Val(et, base + i), et, distinct=True), st
        return
    if name == "map":
        fn = args[0]
        vs = [self.view_of(x, st) for x in a[1:]]
        n = vs[0].length

        def at(i):
            # facts about the element (postconditions of the mapped function) go to the state of the reader
            tgt = self.view_st if self.view_st is not None else st
            outs = list(self.apply(fn, [self.vat(v, i, tgt) for v in vs], {}, tgt, node))
            if len(outs) != 1:
                raise Untranslatable("map function forks")
            if outs[0][1] is not tgt:
                tgt.pc[:] = outs[0][1].pc
                tgt.heap = outs[0][1].heap
            return outs[0][0]
        mv = View(n, at, None)
        mv.inner = vs[0] if len(vs) == 1 else None
        yield mv, st
        return
    if name == "tuple":
        if not a:
            yield PyTuple([]), st
            return
        x = a[0]
        if isinstance(x, PyTuple) or (isinstance(x, Val) and isinstance(x.t, Seq)):
            yield x, st
            return
        if isinstance(x, tuple) and x and x[0] == "filtered":
            yield self.filtered_seq(x, st), st
            return
        view = self.view_of(x, st)
        want = getattr(self, "expect_type", None)
        et = want.elt if isinstance(want, Seq) else view.elt_t
        if et is None:
            probe = self.guess_tuple(view.at(fresh("p", z3.IntSort())), st)
            et = probe.t if isinstance(probe, Val) else None
        if et is None and self.lenient:
            yield Unknown("tuple of untracked values"), st
            return
        yield self.materialise(view, st, et), st
        return
    if name in ("list", "deque", "Deque"):
        want = getattr(self, "expect_type", None)
        if not a:
            if want is None or not isinstance(want, List):
                raise Untranslatable(f"{name}() of unknown type (add a locals hint)")
            yield self.alloc(st, want), st
            return
        view = self.view_of(a[0], st)
        et = want.elt if isinstance(want, List) else view.elt_t
        if et is None:
            probe = self.guess_tuple(view.at(fresh("p", z3.IntSort())), st)
            et = probe.t
        t = want if isinstance(want, List) else (Deque(et) if name != "list" else List(et))
        lst = self.alloc(st, t)
        self.list_extend(st, lst, view)
        yield lst, st
        return
    if name in ("set", "frozenset") and a and isinstance(a[0], MemView):
        mv = a[0]
        sset = self.alloc(st, Set(mv.elt_t))
        k = fresh("k", mv.elt_t.sort())
        d = fresh("dom", self.dom(st, sset).sort())
        st.assume(z3.ForAll([k], z3.Select(d, k) == mv.pred(k)))
        self.set_dom(st, sset, d)
        c = fresh("card", z3.IntSort())
        st.assume(c >= 0)
        self.set_card(st, sset, c)
        yield sset, st
        return
    if name in ("set", "frozenset"):
        want = getattr(self, "expect_type", None)
        if not a:
            if not isinstance(want, Set):
                raise Untranslatable("set() of unknown type (add a locals hint)")
            yield self.alloc(st, want), st
            return
        view = self.view_of(a[0], st)
        et = want.k if isinstance(want, Set) else view.elt_t
        if et is None:
            probe = self.guess_tuple(view.at(fresh("p", z3.IntSort())), st)
            et = probe.t
        s = self.alloc(st, Set(et))
        self.set_update(st, s, view)
        yield s, st
        return
    if name in ("dict", "Counter", "defaultdict"):
        want = getattr(self, "expect_type", None)
        if not isinstance(want, Dict):
            if self.lenient:
                yield self.unknown_call(args, kwargs, st, f"{name}()"), st
                return
            raise Untranslatable(f"{name}() of unknown type (add a locals hint)")
        if a and name != "defaultdict":
            raise Untranslatable(f"{name}(iterable)")
        yield self.alloc(st, want), st
        return
    if name == "sorted":
        x = a[0]
        view = self.view_of(x, st)
        if "key" in kwargs or "reverse" in kwargs:
            # order unspecified: an arbitrary permutation of the source (sound over-approximation)
            n = view.length
            pi = z3.Function(f"perm!{fresh('p', z3.IntSort())}", z3.IntSort(), z3.IntSort())
            inv = z3.Function(f"perminv!{fresh('p', z3.IntSort())}", z3.IntSort(), z3.IntSort())
            i = fresh("i", z3.IntSort())
            st.assume(z3.ForAll([i], z3.Implies(z3.And(0 <= i, i < n), z3.And(0 <= pi(i), pi(i) < n, inv(pi(i)) == i))))
            st.assume(z3.ForAll([i], z3.Implies(z3.And(0 <= i, i < n), z3.And(0 <= inv(i), inv(i) < n, pi(inv(i)) == i))))
            self.assume_log("sorted(key=...): modelled as an arbitrary permutation of its input (order not tracked)")
            out = View(n, lambda j: view.at(pi(j)), view.elt_t, distinct=view.distinct)
            out.perm_of = (view, pi, inv)
            yield out, st
            return
        et = view.elt_t
        if et != Int:
            probe = view.at(fresh("p", z3.IntSort()))
            if not (isinstance(probe, Val) and probe.t == Int):
                raise Untranslatable("sorted of non-int sequence")
            et = Int
        src = x if isinstance(x, Val) and isinstance(x.t, Seq) else self.materialise(view, st, Int)
        sf = z3.Function("sorted_fn", z3.SeqSort(z3.IntSort()), z3.SeqSort(z3.IntSort()))
        r = sf(src.z)
        n = view.length
        i, j = fresh("i", z3.IntSort()), fresh("j", z3.IntSort())
        st.assume(z3.Length(r) == n)
        st.assume(z3.ForAll([i, j], z3.Implies(z3.And(0 <= i, i < j, j < n), r[i] <= r[j])))
        st.assume(z3.ForAll([i], z3.Implies(z3.And(0 <= i, i < n),
                                            z3.Exists([j], z3.And(0 <= j, j < n, r[i] == view.at(j).z)))))
        st.assume(z3.ForAll([j], z3.Implies(z3.And(0 <= j, j < n),
                                            z3.Exists([i], z3.And(0 <= i, i < n, r[i] == view.at(j).z)))))
        self.assume_log("sorted(): a function of its input giving an ordered sequence of the same length with the "
                        "same set of values (multiplicities not modelled)")
        yield ("listcomp", Val(Seq(Int), r)), st
        return
    if name == "next":
        x = a[0]
        if isinstance(x, Val) and isinstance(x.t, Obj) and len(a) == 1 and self.reg.find_method(x.t.cls, "__next__") is not None:
            yield from self.call_contract(self.reg.find_method(x.t.cls, "__next__"), [x], {}, st, node)
            return
        view = self.view_of(x, st)
        if len(a) > 1:
            d = a[1]
            first = view.at(z3.IntVal(0))
            m = self.merge_vals(view.length > 0, self.guess_tuple(first, st), self.guess_tuple(d, st), st)
            if m is None:
                raise Untranslatable("next() default of another type")
            yield m, st
        else:
            self.fork_raise(st, view.length <= 0, "StopIteration")
            yield view.at(z3.IntVal(0)), st
        return
    if name == "iter":
        yield a[0], st
        return
    if name == "super" and not a:
        me = st.env.get("self")
        cur = self.cur_fn.split(".")[0]
        if not (isinstance(me, Val) and isinstance(me.t, Obj)):
            raise Untranslatable("super() outside a method with a typed self")
        yield ("super", me, cur), st
        return
    if name in ("sympy.var", "var", "sympy.Symbol"):
        E = Opaque("Expr")
        k = self.coerce(a[0], Str, st)
        yield Val(E, z3.Function("expr_var", z3.StringSort(), E.sort())(k.z)), st
        return
    if name in ("randint", "random.randint"):
        lo, hi = self.as_int(a[0], st).z, self.as_int(a[1], st).z
        self.fork_raise(st, lo > hi, "ValueError")
        r = fresh("randint", z3.IntSort())
        st.assume(z3.And(lo <= r, r <= hi))
        self.assume_log("random.randint(a, b) returns an arbitrary integer of [a, b] (every outcome is considered)")
        yield int_val(r), st
        return
    if name in ("time.time", "time"):
        self.assume_log("time.time() returns an arbitrary value; readings are untracked havocs")
        yield Unknown("clock"), st
        return
    if name == "print" or name.startswith("logger."):
        yield none_val(), st
        return
    if name == "itertools.chain":
        vs = [self.view_of(x, st) for x in a]
        yield self.chain_views(vs), st
        return
    if name in ("itertools.chain.from_iterable", "chain.from_iterable"):
        outer = self.view_of(a[0], st)
        i, j = fresh("i", z3.IntSort()), fresh("j", z3.IntSort())
        inner = self.view_of(self.iter_value(outer.at(i), st), st)
        et = inner.elt_t

        def pred(x, outer=outer):
            ii, jj = fresh("i", z3.IntSort()), fresh("j", z3.IntSort())
            iv = self.view_of(self.iter_value(outer.at(ii), st), st)
            return z3.Exists([ii, jj], z3.And(0 <= ii, ii < outer.length, 0 <= jj, jj < iv.length,
                                              self.coerce(iv.at(jj), et, st).z == x))
        yield MemView(pred, et), st
        return
    if name in ("itertools.filterfalse", "filterfalse", "filter"):
        fn, src = args[0], a[1]
        if not isinstance(src, MemView):
            v = self.view_of(src, st)
            et0 = v.elt_t

            def p0(x, v=v):
                ii = fresh("i", z3.IntSort())
                return z3.Exists([ii], z3.And(0 <= ii, ii < v.length, self.coerce(v.at(ii), et0, st).z == x))
            src = MemView(p0, et0)

        def keep(x, src=src):
            outs = list(self.apply(fn, [Val(src.elt_t, x)], {}, st, node))
            if len(outs) != 1:
                raise Untranslatable("filter predicate forks")
            t = self.truth(outs[0][0], st)
            return z3.And(src.pred(x), z3.Not(t) if "false" in name else t)
        yield MemView(keep, src.elt_t), st
        return
    if self.lenient:
        yield self.unknown_call(args, kwargs, st, f"builtin {name}"), st
        return
    raise Untranslatable(f"builtin {name}")


def bulk_dicts(self, g, st, want):
    """tuple({k: v, ...} [if c else {...}] for x in src): len(src) freshly allocated dictionaries (bulk allocation)."""
    dt = want.elt
    view, bind, ifs, s1 = self.comp_view(g, st)
    st.pc[:] = s1.pc
    n = view.length
    st.assume(n >= 0)
    base = st.next_ref
    st.next_ref = st.next_ref + n
    i = fresh("bi", z3.IntSort())
    s_i = bind(i, st)
    elt = g.elt
    if isinstance(elt, ast.IfExp):
        cv, _ = self.ev1(elt.test, s_i)
        cond = self.truth(cv, s_i)
        branches = [(cond, elt.body), (z3.Not(cond), elt.orelse)]
    else:
        branches = [(z3.BoolVal(True), elt)]
    r = fresh("r", z3.IntSort())
    k = fresh("k", dt.k.sort())
    dom0 = self.heap.get(st, ("dom", dt.name(), dt.k))
    val0 = self.heap.get(st, ("val", dt.name(), dt.k, dt.v))
    card0 = self.heap.get(st, ("card", dt.name()))
    dom1, val1, card1 = fresh("bdom", dom0.sort()), fresh("bval", val0.sort()), fresh("bcard", card0.sort())
    outside = z3.Or(r < base, r >= base + n)
    st.assume(z3.ForAll([r], z3.Implies(outside, z3.And(z3.Select(dom1, r) == z3.Select(dom0, r),
                                                        z3.Select(val1, r) == z3.Select(val0, r),
                                                        z3.Select(card1, r) == z3.Select(card0, r)))))
    in_dom = z3.BoolVal(False)
    for c, d in branches:
        keys = []
        for kn, vn in zip(d.keys, d.values):
            kv, _ = self.ev1(kn, s_i)
            vv, _ = self.ev1(vn, s_i)
            kz = self.coerce(kv, dt.k, st).z
            vz = self.coerce(vv, dt.v, st).z
            keys.append(kz)
            body = z3.Implies(c, z3.Select(z3.Select(val1, r), kz) == vz)
            st.assume(z3.ForAll([r], z3.Implies(z3.And(base <= r, r < base + n), z3.substitute(body, (i, r - base)))))
        in_dom = z3.Or(in_dom, z3.And(c, z3.Or(*[k == x for x in keys]) if keys else z3.BoolVal(False)))
    body = z3.Select(z3.Select(dom1, r), k) == in_dom
    st.assume(z3.ForAll([r, k], z3.Implies(z3.And(base <= r, r < base + n), z3.substitute(body, (i, r - base)))))
    self.heap.set(st, ("dom", dt.name(), dt.k), dom1)
    self.heap.set(st, ("val", dt.name(), dt.k, dt.v), val1)
    self.heap.set(st, ("card", dt.name()), card1)
    et = dt
    rs = fresh("seq", z3.SeqSort(z3.IntSort()))
    j = fresh("j", z3.IntSort())
    st.assume(z3.Length(rs) == n)
    st.assume(z3.ForAll([j], z3.Implies(z3.And(0 <= j, j < n), rs[j] == base + j)))
    return Val(Seq(et), rs)


def set_pred(self, node, s, kt, k):
    """Membership predicate (at the symbolic key k) of a set-valued expression built from frozenset()/set() of an
    iterable, dict key views, and the operators - | &."""
    if isinstance(node, ast.BinOp) and isinstance(node.op, (ast.Sub, ast.BitOr, ast.BitAnd)):
        a, b = self.set_pred(node.left, s, kt, k), self.set_pred(node.right, s, kt, k)
        return z3.And(a, z3.Not(b)) if isinstance(node.op, ast.Sub) else (z3.Or(a, b) if isinstance(node.op, ast.BitOr)
                                                                        else z3.And(a, b))
    if isinstance(node, ast.Call) and isinstance(node.func, ast.Name) and node.func.id in ("frozenset", "set") \
            and len(node.args) <= 1 and not node.keywords:
        if not node.args:
            return z3.BoolVal(False)
        src = node.args[0]
        if isinstance(src, ast.Call) and isinstance(src.func, ast.Attribute) and src.func.attr == "keys" and not src.args:
            src = src.func.value
        v, _ = self.ev1(src, s)
        v = self.guess_tuple(v, s) if isinstance(v, PyTuple) else v
        if (isinstance(v, Val) and isinstance(v.t, (Dict, Set, Seq, List))) or isinstance(v, View):
            return self.contains(s, v, Val(kt, k))
        raise Untranslatable("set built from an untracked iterable")
    v, _ = self.ev1(node, s)
    if isinstance(v, Val) and isinstance(v.t, Set):
        return self.contains(s, v, Val(kt, k))
    raise Untranslatable("set expression outside the supported forms")


def bulk_sets(self, g, st, want):
    """tuple(<set expression> for x in src): len(src) freshly allocated sets (bulk allocation); element i contains
    exactly the keys satisfying the expression's membership predicate for the i-th source item."""
    stt = want.elt
    view, bind, ifs, s1 = self.comp_view(g, st)
    st.pc[:] = s1.pc
    n = view.length
    st.assume(n >= 0)
    base = st.next_ref
    st.next_ref = st.next_ref + n
    i = fresh("bi", z3.IntSort())
    k = fresh("k", stt.k.sort())
    s_i = bind(i, st)
    self.muted += 1
    try:
        pred = self.set_pred(g.elt, s_i, stt.k, k)
    finally:
        self.muted -= 1
    r = fresh("r", z3.IntSort())
    dom0 = self.heap.get(st, ("dom", stt.name(), stt.k))
    card0 = self.heap.get(st, ("card", stt.name()))
    dom1, card1 = fresh("bdom", dom0.sort()), fresh("bcard", card0.sort())
    outside = z3.Or(r < base, r >= base + n)
    st.assume(z3.ForAll([r], z3.Implies(outside, z3.And(z3.Select(dom1, r) == z3.Select(dom0, r),
                                                        z3.Select(card1, r) == z3.Select(card0, r)))))
    body = z3.Select(z3.Select(dom1, r), k) == pred
    st.assume(z3.ForAll([r, k], z3.Implies(z3.And(base <= r, r < base + n), z3.substitute(body, (i, r - base)))))
    st.assume(z3.ForAll([r], z3.Implies(z3.And(base <= r, r < base + n), z3.Select(card1, r) >= 0)))
    self.heap.set(st, ("dom", stt.name(), stt.k), dom1)
    self.heap.set(st, ("card", stt.name()), card1)
    rs = fresh("seq", z3.SeqSort(z3.IntSort()))
    j = fresh("j", z3.IntSort())
    st.assume(z3.Length(rs) == n)
    st.assume(z3.ForAll([j], z3.Implies(z3.And(0 <= j, j < n), rs[j] == base + j)))
    return Val(Seq(stt), rs)


def next_of_genexp(self, g, st):
    """next(<elt> for x in src if cond): generators are lazy -- the element expression is evaluated (with its side effects) for
    the FIRST position whose filter holds and for no other; StopIteration when no position qualifies.  The filters are read
    in the state before the call (they must be free of side effects: they are evaluated on a scratch copy)."""
    view, bind, ifs, s1 = self.comp_view(g, st)
    st.pc[:] = s1.pc
    st.heap = s1.heap
    n = view.length
    st.assume(n >= 0)

    def keep_at(j):
        sj = st.copy()
        self.muted += 1
        try:
            s2 = bind(j, sj)
            cs = []
            for c in ifs:
                cv, s2 = self.ev1(c, s2)
                cs.append(self.truth(cv, s2))
        finally:
            self.muted -= 1
        return z3.And(*cs) if cs else z3.BoolVal(True)
    j = fresh("nj", z3.IntSort())
    keep_j = keep_at(j)
    m = fresh("first", z3.IntSort())
    none = z3.ForAll([j], z3.Implies(z3.And(0 <= j, j < n), z3.Not(keep_j)))
    self.fork_raise(st, none, "StopIteration")
    st.assume(z3.And(0 <= m, m < n, z3.substitute(keep_j, (j, m))))
    st.assume(z3.ForAll([j], z3.Implies(z3.And(0 <= j, j < m), z3.Not(keep_j))))
    self.assume_log("next(<generator expression>): lazy -- only the first kept position's element is evaluated; filters are pure")
    s_m = bind(m, st)
    for v, s2 in self.ev(g.elt, s_m):
        out = State(st.env, s2.heap, s2.pc, s2.next_ref, s2.ghost, s2.labels)
        yield v, out


def bulk_empty_lists(self, g, st, want, any_elt=False):
    """tuple(deque() for _ in src): len(src) freshly allocated, pairwise distinct, empty lists/deques."""
    lt = want.elt
    view, bind, ifs, s1 = self.comp_view(g, st)
    st.pc[:] = s1.pc
    n = view.length
    st.assume(n >= 0)
    base = st.next_ref
    st.next_ref = st.next_ref + n
    r = fresh("r", z3.IntSort())
    keys = [("len", lt.name())] + ([("off", lt.name())] if isinstance(lt, Deque) else [])
    for key in keys:
        a0 = self.heap.get(st, key)
        a1 = fresh("blen", a0.sort())
        st.assume(z3.ForAll([r], z3.Select(a1, r) == z3.If(z3.And(base <= r, r < base + n), z3.IntVal(0), z3.Select(a0, r))))
        self.heap.set(st, key, a1)
    rs = fresh("seq", z3.SeqSort(z3.IntSort()))
    j = fresh("j", z3.IntSort())
    st.assume(z3.Length(rs) == n)
    st.assume(z3.ForAll([j], z3.Implies(z3.And(0 <= j, j < n), rs[j] == base + j)))
    return Val(Seq(lt), rs)


def chain_views(self, vs):
    if len(vs) == 1:
        return vs[0]
    a, rest = vs[0], self.chain_views(vs[1:])

    def at(i):
        x, y = a.at(i), rest.at(i - a.length)
        m = self.merge_vals(i < a.length, x, y, None)
        if m is None:
            raise Untranslatable("chain of differently typed iterables")
        return m
    return View(a.length + rest.length, at, a.elt_t)


def filtered_seq(self, f, st, want_elt=None):
    """tuple(x for x in src if cond): a fresh sequence that is a subsequence of src with exactly the kept items."""
    _, view, bind, ifs, elt = f
    i = fresh("i", z3.IntSort())
    s_i = bind(i, st)
    ev, s2 = self.ev1(elt, s_i)
    ev = self.coerce(ev, want_elt, s2) if want_elt is not None else self.guess_tuple(ev, s2)
    et = ev.t
    conds = []
    for c in ifs:
        cv, s2 = self.ev1(c, s2)
        conds.append(self.truth(cv, s2))
    keep = z3.And(*conds)
    r = fresh("filt", z3.SeqSort(et.sort()))
    # strictly increasing index map pos: [0,len r) -> [0,len src)
    pos = z3.Function(f"pos!{r}", z3.IntSort(), z3.IntSort())
    j, k = fresh("j", z3.IntSort()), fresh("k", z3.IntSort())
    n = view.length
    sub = lambda z, jj: z3.substitute(z, (i, jj))
    st.assume(z3.Length(r) <= n)
    st.assume(z3.ForAll([j], z3.Implies(z3.And(0 <= j, j < z3.Length(r)),
                                        z3.And(0 <= pos(j), pos(j) < n, sub(keep, pos(j)), r[j] == sub(ev.z, pos(j))))))
    st.assume(z3.ForAll([j, k], z3.Implies(z3.And(0 <= j, j < k, k < z3.Length(r)), pos(j) < pos(k))))
    st.assume(z3.ForAll([k], z3.Implies(z3.And(0 <= k, k < n, sub(keep, k)),
                                        z3.Exists([j], z3.And(0 <= j, j < z3.Length(r), pos(j) == k)))))
    return Val(Seq(et), r)


def list_extend(self, st, lst, view):
    n0 = self.list_len(st, lst)
    st.assume(n0 >= 0)          # lengths of heap lists are non-negative (invariant of the encoding)
    m = view.length
    st.assume(m >= 0)
    ms = simp(m)
    if z3.is_int_value(ms) and ms.as_long() <= 6:
        for k in range(ms.as_long()):
            self.list_append(st, lst, self.guess_tuple(view.at(z3.IntVal(k)), st))
        return
    arr0 = self.list_arr(st, lst)
    off = self.list_off(st, lst)
    arr = fresh("ext", arr0.sort())
    i = fresh("i", z3.IntSort())
    zero_off = z3.is_int_value(off) and off.as_long() == 0
    pos = (lambda x: x) if zero_off else (lambda x: off + x)
    # absolute positions, so that Select(arr, i) is a usable trigger
    if zero_off:
        st.assume(z3.ForAll([i], z3.Implies(i < n0, z3.Select(arr, i) == z3.Select(arr0, i))))
        st.assume(z3.ForAll([i], z3.Implies(z3.And(n0 <= i, i < n0 + m), z3.Select(arr, i)
                                            == self.coerce(self.guess_tuple(view.at(i - n0), st), lst.t.elt, st).z)))
    else:
        # a deque: items sit at arr[off + j]; the axioms range over the absolute position q = off + j (an index with arithmetic in
        # it is no usable pattern), the relative form is kept as well for goals stated relatively
        q = fresh("q", z3.IntSort())
        st.assume(z3.ForAll([q], z3.Implies(q < off + n0, z3.Select(arr, q) == z3.Select(arr0, q)), patterns=[z3.Select(arr, q)]))
        st.assume(z3.ForAll([q], z3.Implies(z3.And(off + n0 <= q, q < off + n0 + m), z3.Select(arr, q)
                                            == self.coerce(self.guess_tuple(view.at(q - off - n0), st), lst.t.elt, st).z),
                            patterns=[z3.Select(arr, q)]))
        st.assume(z3.ForAll([i], z3.Implies(i < n0, z3.Select(arr, pos(i)) == z3.Select(arr0, pos(i)))))
        st.assume(z3.ForAll([i], z3.Implies(z3.And(n0 <= i, i < n0 + m), z3.Select(arr, pos(i))
                                            == self.coerce(self.guess_tuple(view.at(i - n0), st), lst.t.elt, st).z)))
    mp = getattr(view, "member_pred", None)
    if mp is not None:
        # the source enumerates a set / the keys of a dict: every appended item is a member (stated on the destination array,
        # whose reads are usable patterns -- the enumeration itself is a z3 sequence, over which no solver instantiates)
        lo = n0 if zero_off else off + n0          # absolute positions, so that the array read is a usable pattern
        st.assume(z3.ForAll([i], z3.Implies(z3.And(lo <= i, i < lo + m), mp(z3.Select(arr, i))),
                            patterns=[z3.Select(arr, i)]))
    self.list_set_arr(st, lst, arr)
    self.list_set_len(st, lst, n0 + m)


def set_update(self, st, s, view):
    d0 = self.dom(st, s)
    d = fresh("dom", d0.sort())
    k = fresh("k", s.t.k.sort())
    i = fresh("i", z3.IntSort())
    st.assume(z3.ForAll([k], z3.Select(d, k) == z3.Or(z3.Select(d0, k), z3.Exists(
        [i], z3.And(0 <= i, i < view.length, self.coerce(self.guess_tuple(view.at(i), st), s.t.k, st).z == k)))))
    self.set_dom(st, s, d)
    c = fresh("card", z3.IntSort())
    st.assume(c >= self.card(st, s))
    st.assume(c <= self.card(st, s) + view.length)
    if view.distinct:
        # duplicate-free source into an empty set: cardinality is the length
        st.assume(z3.Implies(self.card(st, s) == 0, c == view.length))
    self.set_card(st, s, c)


# ---------------------------------------------------------------------------------------------- methods
def call_method(self, recv, name, args, kwargs, st, node):
    a = args
    if isinstance(recv, tuple) and recv and recv[0] == "super":
        _, me, cur = recv
        mro = self.reg.mro(me.t.cls)
        after = mro[mro.index(cur) + 1:] if cur in mro else mro[1:]
        for c0 in after:
            c = self.reg.contracts.get(f"{c0}.{name}")
            if c is not None:
                yield from self.call_contract(c, [me] + list(args), kwargs, st, node)
                return
        raise Untranslatable(f"super().{name}: no contract in {after}")
    if isinstance(recv, tuple) and recv and recv[0] == "listlit":
        recv = recv[1]
    if isinstance(recv, PyTuple):
        if name == "__add__":
            yield self.binop(ast.Add(), recv, a[0], st), st
            return
        recv = self.guess_tuple(recv, st)
    if isinstance(recv, Val):
        t = recv.t
        if isinstance(t, Obj):
            c = self.reg.find_method(t.cls, name)
            if c is not None and self.lenient and name in self.c.pure_calls and self.cur_fn == self.c.qual:
                # the caller's contract declares this call irrelevant to what it states: result unknown, no effect
                self.assume_log(f"lenient: {t.cls}.{name}(...) is treated as pure with an unknown result here "
                                f"(its own contract is discharged separately)")
                hint = self.c.locals.get(f"${name}")
                yield (self.fresh_of_type(hint, st, name) if hint is not None else Unknown(f"pure call {name}")), st
                return
            if c is None:
                mm = MIXINS.get(name)
                if mm is not None and self.reg.find_method(t.cls, "__getitem__") is not None:
                    # the method is modelled as the one INHERITED from the collections.abc mixin, defined through
                    # __getitem__/__delitem__/...; that model is void if the class overrides it without a contract
                    cs = self.reg.classes.get(t.cls)
                    if cs is not None and cs.file and not cs.file.startswith("verif:"):
                        try:
                            self.src.find_in(cs.file, f"{t.cls}.{name}")
                            overridden = True
                        except ContractError:
                            overridden = False
                        if overridden:
                            raise Untranslatable(f"{t.cls}.{name} is defined in the source but has no contract "
                                                 f"(it was modelled as the inherited mixin method)")
                    yield from mm(self, recv, args, kwargs, st, node)
                    return
                if self.lenient and name in self.c.pure_calls:
                    self.assume_log(f"lenient: self.{name}(...) is pure and calls no term provider")
                    yield Unknown(f"pure call {name}"), st
                    return
                raise Untranslatable(f"method {t.cls}.{name} has no contract")
            fnode, _, _ = self.src.find(c)
            static = any(isinstance(d, ast.Name) and d.id == "staticmethod" for d in fnode.decorator_list)
            if c.yields:
                yield self.call_generator_view(c, ([] if static else [recv]) + list(args), kwargs, st, node), st
                return
            yield from self.call_contract(c, ([] if static else [recv]) + list(args), kwargs, st, node)
            return
        if isinstance(t, Fun):
            # a method of a function-valued argument (e.g. sympy Function(...).subs): a provider call
            yield from self.call_provider(ProviderCall(t.nm, recv.z), args, kwargs, st, node)
            return
        if isinstance(t, Opaque) and (t.nm, name) in self.reg.opaque_methods:
            ats, rt = self.reg.opaque_methods[(t.nm, name)]
            az = [self.coerce(self.guess_tuple(x, st), at, st).z for x, at in zip(a, ats)]
            f = z3.Function(f"meth_{t.nm}_{name}", t.sort(), *[at.sort() for at in ats], rt.sort())
            self.assume_log(f"A2: {t.nm}.{name}() is pure and deterministic (uninterpreted function)")
            if (t.nm, name) in self.reg.opaque_raises:
                self.fork_raise(st, fresh("user_code_fails", z3.BoolSort()), self.reg.opaque_raises[(t.nm, name)])
            yield Val(rt, f(recv.z, *az)), st
            return
        if isinstance(t, Opt):
            inner = self.coerce(recv, t.elt, st)
            yield from self.call_method(inner, name, args, kwargs, st, node)
            return
        if isinstance(t, Seq):
            if name == "__add__":
                yield self.binop(ast.Add(), recv, a[0], st), st
                return
            if name == "__contains__":
                yield bool_val(self.contains(st, recv, a[0])), st
                return
            if name == "index" and len(a) == 1:
                # tuple.index(x): the FIRST position holding x; ValueError when x does not occur
                x = self.coerce(a[0], t.elt, st)
                self.fork_raise(st, z3.Not(self.contains(st, recv, x)), "ValueError")
                r = fresh("idx", z3.IntSort())
                j = fresh("j", z3.IntSort())
                st.assume(z3.And(0 <= r, r < self.seq_len(recv), self.seq_nth(recv, r).z == x.z))
                st.assume(z3.ForAll([j], z3.Implies(z3.And(0 <= j, j < r), self.seq_nth(recv, j).z != x.z)))
                yield int_val(r), st
                return
        if isinstance(t, List):
            if name == "append":
                self.list_append(st, recv, a[0])
                yield none_val(), st
                return
            if name == "extend":
                src_ = self.iter_value(a[0], st)
                if isinstance(src_, tuple) and src_ and src_[0] == "filtered":
                    src_ = self.filtered_seq(src_, st)          # generator with a filter: the kept items, in order
                self.list_extend(st, recv, self.view_of(src_, st))
                yield none_val(), st
                return
            if name == "clear":
                self.list_set_len(st, recv, z3.IntVal(0))
                yield none_val(), st
                return
            if name == "pop" and not a:
                n = self.list_len(st, recv)
                st.assume(n >= 0)
                self.fork_raise(st, n <= 0, "IndexError")
                v = self.list_at_raw(st, recv, n - 1)
                self.list_set_len(st, recv, n - 1)
                yield v, st
                return
            if name == "popleft" and isinstance(t, Deque):
                n = self.list_len(st, recv)
                st.assume(n >= 0)
                self.fork_raise(st, n <= 0, "IndexError")
                v = self.list_at_raw(st, recv, z3.IntVal(0))
                k = ("off", t.name())
                self.heap.set(st, k, z3.Store(self.heap.get(st, k), recv.z, self.list_off(st, recv) + 1))
                self.list_set_len(st, recv, n - 1)
                yield v, st
                return
            if name == "__getitem__":
                yield self.index(recv, a[0], st, node), st
                return
        if isinstance(t, Set):
            if name == "add":
                self.add_key(st, recv, a[0])
                yield none_val(), st
                return
            if name == "discard":
                self.del_key(st, recv, a[0])
                yield none_val(), st
                return
            if name == "remove":
                x = self.coerce(a[0], t.k, st)
                self.fork_raise(st, z3.Not(z3.Select(self.dom(st, recv), x.z)), "KeyError")
                self.del_key(st, recv, x)
                yield none_val(), st
                return
            if name == "clear":
                self.set_dom(st, recv, z3.K(t.k.sort(), z3.BoolVal(False)))
                self.set_card(st, recv, z3.IntVal(0))
                yield none_val(), st
                return
            if name == "pop":
                self.card_axioms(st, recv)
                self.fork_raise(st, self.card(st, recv) <= 0, "KeyError")
                x = fresh("popped", t.k.sort())
                st.assume(z3.Select(self.dom(st, recv), x))
                self.del_key(st, recv, Val(t.k, x))
                yield self.valid_ref(st, Val(t.k, x)), st
                return
            if name in ("issubset", "issuperset") and isinstance(a[0], tuple) and a[0] and a[0][0] == "setlit":
                items = [self.coerce(x, t.k, st).z for x in a[0][1].items]
                k = fresh("k", t.k.sort())
                d = self.dom(st, recv)
                if name == "issubset":
                    yield bool_val(z3.ForAll([k], z3.Implies(z3.Select(d, k), z3.Or(*[k == x for x in items]) if items
                                                             else z3.BoolVal(False)))), st
                else:
                    yield bool_val(z3.And(*[z3.Select(d, x) for x in items]) if items else z3.BoolVal(True)), st
                return
            if name in ("issubset", "issuperset"):
                other = self.iter_value(a[0], st)
                k = fresh("k", t.k.sort())
                if isinstance(other, Val) and isinstance(other.t, (Set, Dict)):
                    od = self.dom(st, other)
                    sub, sup = (self.dom(st, recv), od) if name == "issubset" else (od, self.dom(st, recv))
                    yield bool_val(z3.ForAll([k], z3.Implies(z3.Select(sub, k), z3.Select(sup, k)))), st
                    return
                view = self.view_of(other, st)
                i = fresh("i", z3.IntSort())
                d = self.dom(st, recv)
                if name == "issuperset":
                    yield bool_val(z3.ForAll([i], z3.Implies(z3.And(0 <= i, i < view.length),
                                                            z3.Select(d, self.coerce(view.at(i), t.k, st).z)))), st
                else:
                    yield bool_val(z3.ForAll([k], z3.Implies(z3.Select(d, k), z3.Exists(
                        [i], z3.And(0 <= i, i < view.length, self.coerce(view.at(i), t.k, st).z == k))))), st
                return
            if name == "update":
                self.set_update(st, recv, self.view_of(self.iter_value(a[0], st), st))
                yield none_val(), st
                return
            if name in ("union", "copy"):
                new = self.alloc(st, t)
                self.set_dom(st, new, self.dom(st, recv))
                self.set_card(st, new, self.card(st, recv))
                for other in a:
                    if isinstance(other, tuple) and other and other[0] == "setlit":
                        for it in other[1].items:
                            self.add_key(st, new, it)
                    elif isinstance(other, Val) and isinstance(other.t, Set):
                        k = fresh("k", t.k.sort())
                        d = fresh("dom", self.dom(st, new).sort())
                        st.assume(z3.ForAll([k], z3.Select(d, k) == z3.Or(z3.Select(self.dom(st, new), k),
                                                                         z3.Select(self.dom(st, other), k))))
                        self.set_dom(st, new, d)
                        c = fresh("card", z3.IntSort())
                        st.assume(c >= self.card(st, new))
                        self.set_card(st, new, c)
                    else:
                        self.set_update(st, new, self.view_of(self.iter_value(other, st), st))
                yield new, st
                return
            if name == "__contains__":
                yield bool_val(self.contains(st, recv, a[0])), st
                return
        if isinstance(t, Dict):
            if name == "get":
                k = self.coerce(a[0], t.k, st)
                present = z3.Select(self.dom(st, recv), k.z)
                v = self.valid_ref(st, Val(t.v, z3.Select(self.dvals(st, recv), k.z)))
                if t.counter:
                    yield Val(Int, z3.If(present, v.z, 0)), st
                    return
                d = a[1] if len(a) > 1 else kwargs.get("default", none_val())
                if isinstance(d, PyTuple) and isinstance(t.v, (Seq, Tup)):
                    d = self.coerce(d, t.v, st)
                if isinstance(t.v, Opaque) and t.v.nm == "Any":
                    d = self.coerce(d, t.v, st)        # untracked JSON-like values: the default is just another value
                m = self.merge_vals(present, v, self.guess_tuple(d, st), st)
                if m is None:
                    raise Untranslatable("dict.get default of another type")
                yield m, st
                return
            if name == "pop":
                k = self.coerce(a[0], t.k, st)
                present = z3.Select(self.dom(st, recv), k.z)
                v = self.valid_ref(st, Val(t.v, z3.Select(self.dvals(st, recv), k.z)))
                if len(a) > 1:
                    m = self.merge_vals(present, v, self.guess_tuple(a[1], st), st)
                    if m is None:
                        raise Untranslatable("dict.pop default of another type")
                else:
                    self.fork_raise(st, z3.Not(present), "KeyError")
                    m = v
                self.del_key(st, recv, k)
                yield m, st
                return
            if name in ("keys", "__iter__"):
                yield self.view_of(recv, st), st
                return
            if name == "values":
                kv = self.view_of(recv, st)
                vals = self.dvals(st, recv)
                vv = View(kv.length, lambda i: self.valid_ref(st, Val(t.v, z3.Select(vals, kv.at(i).z))), t.v)
                vv.values_of = recv          # `x in d.values()`  <=>  some key of d maps to x
                yield vv, st
                return
            if name == "items":
                kv = self.view_of(recv, st)
                vals = self.dvals(st, recv)
                w = View(kv.length, lambda i: PyTuple([kv.at(i), self.valid_ref(
                    st, Val(t.v, z3.Select(vals, kv.at(i).z)))]), None, distinct=True)
                w.keys_seq = getattr(kv, "keys_seq", None)
                yield w, st
                return
            if name == "elements" and t.counter and not a:
                # Counter.elements(): every key repeated as often as its (positive) count -- here: a sequence of some length
                # >= the number of keys with positive count, all of whose items are keys (multiplicities are not tracked)
                n = fresh("nelem", z3.IntSort())
                el = z3.Function(f"elem!{n}", z3.IntSort(), t.k.sort())
                i = fresh("i", z3.IntSort())
                d = self.dom(st, recv)
                st.assume(n >= 0)
                st.assume(z3.ForAll([i], z3.Implies(z3.And(0 <= i, i < n), z3.Select(d, el(i)))))
                self.assume_log("Counter.elements(): an arbitrary sequence of keys of the counter (multiplicities not tracked)")
                yield View(n, lambda j: Val(t.k, el(j)), t.k), st
                return
            if name == "update" and t.counter:
                x = self.iter_value(a[0], st)
                if isinstance(x, PyTuple):
                    for item in x.items:
                        k = self.coerce(item, t.k, st)
                        cur = z3.If(z3.Select(self.dom(st, recv), k.z), z3.Select(self.dvals(st, recv), k.z), 0)
                        self.set_dvals(st, recv, z3.Store(self.dvals(st, recv), k.z, cur + 1))
                        self.add_key(st, recv, k)
                    yield none_val(), st
                    return
            if name == "__contains__":
                yield bool_val(self.contains(st, recv, a[0])), st
                return
            if name == "__getitem__":
                yield self.index(recv, a[0], st, node), st
                return
            if name == "clear":
                self.set_dom(st, recv, z3.K(t.k.sort(), z3.BoolVal(False)))
                self.set_card(st, recv, z3.IntVal(0))
                yield none_val(), st
                return
    if isinstance(recv, PyConst) and isinstance(recv.v, tuple) and recv.v[0] in ("module", "dotted", "builtin"):
        base = recv.v[1] if recv.v[0] != "module" else recv.v[1].split(".")[-1]
        yield from self.call_builtin(f"{base}.{name}", args, kwargs, st, node)
        return
    if isinstance(recv, Unknown) or (self.lenient and not (isinstance(recv, Val) and isinstance(recv.t, Obj))):
        if isinstance(recv, Val) and recv.t.mutable:
            self.havoc_loc(("contents", recv), st)
        yield self.unknown_call(args, kwargs, st, f"method {name}"), st
        return
    raise Untranslatable(f"method {name} on {recv!r}")


# CPython 3.12 _collections_abc.py mixins of Mapping/MutableMapping, modelled through __getitem__'s contract:
#   get:          try: return self[key]  except KeyError: return default
#   __contains__: try: self[key]  except KeyError: return False  else: return True
def _mixin_get(self, recv, args, kwargs, st, node):
    c = self.reg.find_method(recv.t.cls, "__getitem__")
    default = args[1] if len(args) > 1 else kwargs.get("default", none_val())
    mark = len(self.raise_buf)
    outs = list(self.call_contract(c, [recv, args[0]], {}, st, node))
    caught = []
    rest = []
    for o in self.raise_buf[mark:]:
        (caught if o.exc == "KeyError" or o.exc == "LookupError" and False else rest).append(o)
    del self.raise_buf[mark:]
    self.raise_buf.extend(rest)     # anything but KeyError escapes the mixin (e.g. IndexError)
    for v, s in outs:
        yield v, s
    for o in caught:
        yield default, o.state


def _mixin_contains(self, recv, args, kwargs, st, node):
    own = self.reg.find_method(recv.t.cls, "__contains__")
    c = self.reg.find_method(recv.t.cls, "__getitem__")
    mark = len(self.raise_buf)
    outs = list(self.call_contract(c, [recv, args[0]], {}, st, node))
    caught = [o for o in self.raise_buf[mark:] if o.exc == "KeyError"]
    rest = [o for o in self.raise_buf[mark:] if o.exc != "KeyError"]
    del self.raise_buf[mark:]
    self.raise_buf.extend(rest)
    for v, s in outs:
        yield bool_val(True), s
    for o in caught:
        yield bool_val(False), o.state


def _mixin_pop(self, recv, args, kwargs, st, node):
    """MutableMapping.pop(key[, default]): value = self[key] (KeyError -> default or re-raise); del self[key]."""
    cget = self.reg.find_method(recv.t.cls, "__getitem__")
    cdel = self.reg.find_method(recv.t.cls, "__delitem__")
    has_default = len(args) > 1 or "default" in kwargs
    default = args[1] if len(args) > 1 else kwargs.get("default")
    mark = len(self.raise_buf)
    outs = list(self.call_contract(cget, [recv, args[0]], {}, st, node))
    caught = [o for o in self.raise_buf[mark:] if o.exc == "KeyError"]
    rest = [o for o in self.raise_buf[mark:] if o.exc != "KeyError"]
    del self.raise_buf[mark:]
    self.raise_buf.extend(rest)
    for v, s in outs:
        for _ in self.call_contract(cdel, [recv, args[0]], {}, s, node):
            yield v, s
    for o in caught:
        if has_default:
            yield default, o.state
        else:
            self.raise_buf.append(o)


MIXINS = {"get": _mixin_get, "__contains__": _mixin_contains, "pop": _mixin_pop}


# ---------------------------------------------------------------------------------------------- contracts
def bind_params(self, c, fnode, args, kwargs, st):
    """Bind call arguments to the callee's parameter names (from the real signature)."""
    a = fnode.args
    names = [x.arg for x in a.posonlyargs + a.args]
    if any(isinstance(d, ast.Name) and d.id == "classmethod" for d in fnode.decorator_list) and names \
            and names[0] == "cls" and len(args) + len([k for k in kwargs if k in names]) == len(names) - 1:
        args = [Unknown("cls")] + list(args)
    env = {}
    if len(args) > len(names):
        raise Untranslatable(f"too many positional arguments for {c.qual}")
    for n, v in zip(names, args):
        env[n] = v
    defaults = dict(zip(names[len(names) - len(a.defaults):], a.defaults))
    for n in names[len(args):]:
        if n in kwargs:
            env[n] = kwargs[n]
        elif n in defaults:
            env[n] = self.ev1(defaults[n], State({}, st.heap, st.pc, st.next_ref))[0]
        else:
            raise Untranslatable(f"missing argument {n} for {c.qual}")
    for k, d in zip(a.kwonlyargs, a.kw_defaults):
        if k.arg in kwargs:
            env[k.arg] = kwargs[k.arg]
        elif d is not None:
            env[k.arg] = self.ev1(d, State({}, st.heap, st.pc, st.next_ref))[0]
    if a.kwarg is not None and a.kwarg.arg in c.params:
        extra = [k for k in kwargs if k != "$starstar" and k not in names and k not in [x.arg for x in a.kwonlyargs]]
        if "$starstar" in kwargs and not extra:
            env[a.kwarg.arg] = kwargs["$starstar"]          # the same mapping (read-only use: no copy is modelled)
        elif not extra and "$starstar" not in kwargs:
            env[a.kwarg.arg] = self.alloc(st, c.params[a.kwarg.arg])
        else:
            raise Untranslatable(f"keyword arguments collected into **{a.kwarg.arg}")
    # coerce to declared parameter types
    for n, t in c.params.items():
        if n in env and isinstance(t, ty.T):
            if isinstance(env[n], (BoundMethod, Closure, FuncRef)) and isinstance(t, Opt) and isinstance(t.elt, (Fun, Opaque)):
                env[n] = Val(t, t.some(fresh("callable", t.elt.sort())))
            elif isinstance(env[n], (BoundMethod, Closure, FuncRef)) and isinstance(t, (Fun, Opaque)):
                env[n] = Val(t, fresh("callable", t.sort()))      # identity of a passed callable is not tracked
            else:
                env[n] = self.coerce(self.iter_to_val(env[n], t, st), t, st)
    return env


def iter_to_val(self, v, t, st):
    v = self.iter_value(v, st)
    if isinstance(v, tuple) and v and v[0] == "filtered" and isinstance(t, Seq):
        return self.filtered_seq(v, st)
    if isinstance(v, tuple) and v and v[0] == "filtered" and isinstance(t, List):
        # [e for x in src if cond] handed to a list parameter: a new list holding the kept items, in order
        lst = self.alloc(st, t)
        self.list_extend(st, lst, self.view_of(self.filtered_seq(v, st, t.elt), st))
        return lst
    if isinstance(v, View) and isinstance(t, Seq):
        return self.materialise(v, st, t.elt)
    if isinstance(v, MemView) and isinstance(t, Seq):
        # a membership-only iterable handed to a sequence parameter: some enumeration of exactly its members
        s_ = fresh("mvseq", z3.SeqSort(t.elt.sort()))
        i_ = fresh("i", z3.IntSort())
        x_ = fresh("x", t.elt.sort())
        st.assume(z3.ForAll([i_], z3.Implies(z3.And(0 <= i_, i_ < z3.Length(s_)), v.pred(s_[i_]))))
        st.assume(z3.ForAll([x_], z3.Implies(v.pred(x_), z3.Exists([i_], z3.And(0 <= i_, i_ < z3.Length(s_), s_[i_] == x_)))))
        return Val(t, s_)
    return v


def pick_variant(self, c, args, kwargs, st):
    """Choose the type case of a contract with variants from the static types of the arguments."""
    if not c.variants:
        return c
    fnode, _, _ = self.src.find(c)
    names = [x.arg for x in fnode.args.posonlyargs + fnode.args.args]
    given = dict(zip(names, args))
    given.update(kwargs)
    for i, v in enumerate(c.variants):
        ok = True
        for n, t in v.get("params", {}).items():
            a = given.get(n)
            if a is None:
                continue
            a = self.guess_tuple(a, st) if isinstance(a, PyTuple) else a
            at = a.t if isinstance(a, Val) else None
            if at is None or not (at == t or (isinstance(t, Opt) and (at == t.elt or at == NoneT))
                                  or (isinstance(at, Opt) and at.elt == t) or (t == Int and at == Bool)):
                ok = False
                break
        if ok:
            return self.reg.variant(c, i)
    raise Untranslatable(f"no variant of {c.qual} matches the argument types")


def check_call_requires(self, c, env, st, site):
    """The caller's own call-site obligations on the callee c (call_requires of the contract under verification)."""
    extra_reqs = self.c.call_requires.get(c.qual, []) if not self.spec else []
    if not extra_reqs:
        return
    menv = dict(self.entry.env)
    menv.update(st.env)
    for k in env:
        if k in menv:
            menv["caller_" + k] = menv[k]       # a callee parameter shadows the caller's name: caller_<name>
    menv.update(env)
    ms = State(menv, st.heap, st.pc, st.next_ref, st.ghost, st.labels)
    for k, r in enumerate(extra_reqs):
        self.oblige(f"{site}.callreq{k}", st, self.spec_truth(r, ms, old=self.entry),
                    f"{self.c.qual} must call {c.qual} with: {r}")
    self.call_req_sites = getattr(self, "call_req_sites", 0) + 1


def call_contract(self, c, args, kwargs, st, node):
    """Replace a call by the callee's contract: assert requires, havoc modifies, assume ensures."""
    c = self.pick_variant(c, args, kwargs, st)
    if c.inline:
        yield from self.call_inline(c, args, kwargs, st, node)
        return
    fnode, mod, _ = self.src.find(c)
    env = self.bind_params(c, fnode, args, kwargs, st)
    for g, t in c.ghost.items():
        env.setdefault(g, self.fresh_of_type(t, st, g))
    site = self.oid(c.qual)
    cs = State(env, st.heap, st.pc, st.next_ref, st.ghost, st.labels)
    reqs = list(c.requires)
    if c.self_invariant and "self" in env and isinstance(env["self"], Val) and isinstance(env["self"].t, Obj) \
            and not c.qual.endswith(".__init__"):
        reqs += self.reg.class_invariants(env["self"].t.cls)
    assumed = c.qual in getattr(self.c, "assume_call_pre", ())
    for k, r in enumerate(reqs):
        z = self.spec_truth(r, cs)
        if assumed:
            # the caller's contract does not establish this precondition: an explicit, reported assumption
            self.assume_log(f"ASSUMED at the call of {c.qual} in {self.c.qual}: {r}")
        else:
            self.oblige(f"{site}.pre{k}", st, z, f"precondition of {c.qual}: {r}")
        st.assume(z)
    self.check_call_requires(c, env, st, site)
    if c.decreases is not None and c.qual == self.c.qual:
        # recursive call: the measure must decrease and stay non-negative
        m_new = self.as_int(self.spec_eval(c.decreases, cs), st).z
        m_old = self.as_int(self.spec_eval(c.decreases, self.entry), st).z
        self.oblige(f"{site}.decreases", st, z3.And(m_new >= 0, m_new < m_old), "termination measure")
    pre = State(env, dict(st.heap), st.pc, st.next_ref, st.ghost, st.labels)
    # provider discipline: every event the callee may produce must be allowed by the caller's own discipline
    for pname, creqs in c.provider_requires.items():
        spec = self.reg.providers[pname]
        mine = self.c.provider_requires.get(pname)
        if mine is None:
            raise ContractError(f"{c.qual} calls provider {pname} but {self.c.qual} states no discipline for it")
        fidx = fresh("ev_idx", z3.IntSort())
        fargs = [Val(t, fresh("ev_" + nm, t.sort())) for nm, t in zip(spec.get("arg_names", []), spec["args"])]
        cenv = dict(env)
        cenv.update(zip(spec.get("arg_names", []), fargs))
        cenv["idx"] = int_val(fidx)
        s_t = st.copy()
        for r in creqs:
            s_t.assume(self.spec_truth(r, State(cenv, s_t.heap, s_t.pc, s_t.next_ref, s_t.ghost, s_t.labels)))
        menv = dict(self.entry.env)
        menv.update(st.env)
        menv.update(zip(spec.get("arg_names", []), fargs))
        menv["idx"] = int_val(fidx)
        for k, r in enumerate(mine):
            z = self.spec_truth(r, State(menv, s_t.heap, s_t.pc, s_t.next_ref, s_t.ghost, s_t.labels), old=self.entry)
            self.oblige(f"{site}.trace_refines.{pname}.{k}", s_t, z,
                        f"events allowed by {c.qual} must be allowed here: {r}")
        self.provider_calls = getattr(self, "provider_calls", 0) + 1
    # exceptional exits
    conds = []
    for exc, cond in c.raises:
        z = self.spec_truth(cond, cs)
        conds.append(z)
        zs = simp(z)
        if z3.is_false(zs):
            continue
        s_r = st.copy()
        s_r.assume(z)
        self.havoc_modifies(c, env, s_r)
        for post in c.ensures_raise.get(exc, []):
            s_r.assume(self.spec_truth(post, State(env, s_r.heap, s_r.pc, s_r.next_ref, s_r.ghost, s_r.labels), old=pre))
        if not self.spec:
            o_r = Outcome("raise", s_r, exc=exc)
            o_r.site = getattr(self, "cur_site", None)
            self.raise_buf.append(o_r)
    for exc in c.may_raise:
        s_r = st.copy()
        self.havoc_modifies(c, env, s_r)
        for post in c.ensures_raise.get(exc, []):
            s_r.assume(self.spec_truth(post, State(env, s_r.heap, s_r.pc, s_r.next_ref, s_r.ghost, s_r.labels), old=pre))
        if not self.spec:
            o_r = Outcome("raise", s_r, exc=exc)
            o_r.site = getattr(self, "cur_site", None)
            self.raise_buf.append(o_r)
    for z in conds:
        st.assume(z3.Not(z))
    # normal exit
    self.havoc_modifies(c, env, st)
    bump = fresh("allocd", z3.IntSort())
    st.assume(bump >= 0)
    st.next_ref = st.next_ref + bump
    rt = c.returns
    res = none_val() if rt in (None, NoneT) else self.fresh_of_type(rt, st, "ret_" + c.qual.split(".")[-1])
    post_env = dict(env)
    ps = State(post_env, st.heap, st.pc, st.next_ref, st.ghost, st.labels)
    posts = list(c.ensures)
    if c.self_invariant and "self" in env and isinstance(env["self"], Val) and isinstance(env["self"].t, Obj):
        posts += self.reg.class_invariants(env["self"].t.cls)
    if c.yields:
        raise Untranslatable(f"{c.qual} is a generator: iterate over it with call_generator")
    for p in posts:
        st.assume(self.spec_truth(p, ps, old=pre, result=res))
    if not self.spec:
        seq = st.ghost.get("$seq", 0) + 1
        st.ghost = dict(st.ghost)
        st.ghost["$seq"] = seq
        st.ghost["$last:" + c.qual] = (seq, [env.get(n) for n in [a.arg for a in fnode.args.posonlyargs + fnode.args.args]], res)
    yield res, st


def call_generator_view(self, c, args, kwargs, st, node):
    """A contracted generator used as an iterable: a sequence of unknown length whose elements satisfy `yields`."""
    fnode, mod, _ = self.src.find(c)
    env = self.bind_params(c, fnode, args, kwargs, st)
    site = self.oid(c.qual)
    cs = State(env, st.heap, st.pc, st.next_ref, st.ghost, st.labels)
    for k, r in enumerate(c.requires):
        z = self.spec_truth(r, cs)
        self.oblige(f"{site}.pre{k}", st, z, f"precondition of {c.qual}: {r}")
        st.assume(z)
    self.check_call_requires(c, env, st, site)
    if c.decreases is not None and c.qual == self.c.qual:
        m_new = self.as_int(self.spec_eval(c.decreases, cs), st).z
        m_old = self.as_int(self.spec_eval(c.decreases, self.entry), st).z
        self.oblige(f"{site}.decreases", st, z3.And(m_new >= 0, m_new < m_old), "termination measure")
    if c.modifies:
        raise Untranslatable("generator with side effects used as iterable")
    rt = c.returns
    if not isinstance(rt, Seq):
        raise ContractError(f"generator {c.qual} needs returns=Seq(elt)")
    n = fresh("ngen", z3.IntSort())
    st.assume(n >= 0)
    elems = z3.Function(f"gen!{n}", z3.IntSort(), rt.elt.sort())
    pre = State(env, dict(st.heap), st.pc, st.next_ref, st.ghost, st.labels)
    for p in c.yields_count:      # trusted summaries only (dsl refuses it elsewhere)
        st.assume(self.spec_truth(p, State(dict(env, count=int_val(n)), st.heap, st.pc, st.next_ref, st.ghost, st.labels), old=pre))

    def at(i):
        it = Val(rt.elt, elems(i))
        tgt = self.view_st if self.view_st is not None else st
        for p in c.yields:
            z = self.spec_truth(p, State(dict(env, it=it), tgt.heap, tgt.pc, tgt.next_ref, tgt.ghost, tgt.labels), old=pre)
            tgt.assume(z3.Implies(z3.And(0 <= i, i < n), z))
        return it
    self.assume_log("A4: generators are treated as the eager sequence of their yielded values")
    gv = View(n, at, rt.elt)
    if c.complete:
        def complete_inst(wv, j, tgt):
            """The callee's completeness at the value wv: if wv satisfies `when`, it is the element at position j."""
            wv = self.coerce(wv, c.complete["type"], tgt)
            genv = State(dict(env), tgt.heap, tgt.pc, tgt.next_ref, dict(tgt.ghost, **{c.complete["var"]: wv}), tgt.labels)
            cond = z3.And(*[self.spec_truth(r, genv, old=pre) for r in c.complete["when"]])
            tgt.assume(z3.Implies(cond, z3.And(0 <= j, j < n, elems(j) == wv.z)))
        gv.complete_inst = complete_inst
    return gv


def havoc_modifies(self, c, env, st):
    cs = State(env, st.heap, st.pc, st.next_ref, st.ghost, st.labels)
    locs = [self.loc_of(m, cs) for m in c.modifies]
    for loc in locs:
        self.havoc_loc(loc, st)


def loc_of(self, m, st):
    """Parse a modifies entry into a location descriptor evaluated in state st."""
    m = m.strip()
    if m.startswith("all:"):
        t = ty.parse_type(m[4:], self.aliases)
        return ("all", t)
    if m.startswith("*"):
        v = self.spec_eval(m[1:], st)
        if not (isinstance(v, Val) and v.t.mutable):
            raise ContractError(f"modifies {m}: not a container")
        return ("contents", v)
    node = parse_expr(m)
    if isinstance(node, ast.Attribute):
        obj = self.spec_eval(node.value, st)
        if isinstance(obj, Val) and isinstance(obj.t, Obj):
            return ("field", obj, node.attr)
    raise ContractError(f"modifies entry not understood: {m}")


def all_keys_of(self, t):
    """Heap arrays holding values of type t (for an object type: one array per declared field)."""
    if isinstance(t, Obj):
        ks = []
        for c in self.reg.mro(t.cls):
            spec = self.reg.classes.get(c)
            if spec:
                ks += [("fld", c, f, ft) for f, ft in list(spec.fields.items()) + list(spec.ghost_fields.items())]
        return ks
    return type_heap_keys(t)


def havoc_loc(self, loc, st):
    if loc[0] == "all":
        for k in self.all_keys_of(loc[1]):
            self.heap.set(st, k, fresh("hv", self.heap.key_sort(k)))
    elif loc[0] == "contents":
        v = loc[1]
        if isinstance(v.t, Obj):
            cs = self.reg.classes.get(v.t.cls)
            for c in self.reg.mro(v.t.cls):
                spec = self.reg.classes.get(c)
                if spec:
                    for f, ft in list(spec.fields.items()) + list(spec.ghost_fields.items()):
                        k = ("fld", c, f, ft)
                        arr = self.heap.get(st, k)
                        self.heap.set(st, k, z3.Store(arr, v.z, fresh("hv", ft.sort())))
            return
        for k in type_heap_keys(v.t):
            arr = self.heap.get(st, k)
            self.heap.set(st, k, z3.Store(arr, v.z, fresh("hv", arr.sort().range())))
        if isinstance(v.t, List):
            st.assume(self.list_len(st, v) >= 0)
    elif loc[0] == "field":
        _, obj, f = loc
        ft = self.reg.field_type(obj.t.cls, f)
        k = ("fld", self.field_owner(obj.t.cls, f), f, ft)
        arr = self.heap.get(st, k)
        self.heap.set(st, k, z3.Store(arr, obj.z, fresh("hv", ft.sort())))


def fresh_of_type(self, t, st, name="v"):
    v = Val(t, fresh(name, t.sort()))
    if t.mutable:
        st.assume(z3.And(v.z >= 0, v.z < st.next_ref))
    return v


def type_default(self, t):
    raise Untranslatable("type_default")


def call_provider(self, p, args, kwargs, st, node):
    """Call of a function-valued argument: result constrained by the provider contract, event appended to the trace."""
    spec = self.reg.providers.get(p.name)
    if spec is None:
        raise Untranslatable(f"no provider contract for {p.name}")
    rt = spec["returns"]
    argz = [self.coerce(self.guess_tuple(a, st), t, st) for a, t in zip(args, spec["args"])]
    f = z3.Function(f"prov_{p.name}", *( [z3.IntSort()] + [t.sort() for t in spec["args"]] + [rt.sort()]))
    idx = p.index if p.index is not None else z3.IntVal(0)
    res = Val(rt, f(idx, *[a.z for a in argz]))
    # record the event in the ghost trace
    tr = st.ghost.get("$trace", [])
    st.ghost["$trace"] = tr + [(p.name, idx, [a.z for a in argz], list(st.pc))]
    env = dict(self.entry.env)
    env.update(st.env)
    env.update(zip(spec.get("arg_names", []), argz))
    env["idx"] = int_val(idx)
    hs = State(env, st.heap, st.pc, st.next_ref, st.ghost, st.labels)
    for hint in self.c.provider_hints.get(p.name, []):
        try:
            self.ghost_exec([hint], hs)
        except Untranslatable as e:
            if "unknown name" not in str(e):     # a hint that does not apply at this call site is skipped
                raise
    reqs = self.c.provider_requires.get(p.name, spec.get("requires", []))
    site = self.oid(f"provider:{p.name}")
    if not self.muted and not self.spec:
        self.covers.append((f"{self.c.qual}/{site}.cover", list(st.pc)))
    for k, ob in enumerate(reqs):
        z = self.spec_truth(ob, hs, old=self.entry)
        self.oblige(f"{site}.pre{k}", st, z, f"provider call discipline: {ob}")
    self.provider_calls = getattr(self, "provider_calls", 0) + 1
    for post in spec.get("ensures", []):
        env = dict(zip(spec.get("arg_names", []), argz))
        env["idx"] = int_val(idx)
        st.assume(self.spec_truth(post, State(env, st.heap, st.pc, st.next_ref, st.ghost, st.labels), result=res))
    if not self.spec and not self.muted:
        seq = st.ghost.get("$seq", 0) + 1
        st.ghost = dict(st.ghost)
        st.ghost["$seq"] = seq
        st.ghost["$last:prov:" + p.name] = (seq, [int_val(idx)] + list(argz), res)
    yield res, st


def call_inline(self, c, args, kwargs, st, node):
    """Execute the callee's real body in place (listed in the evidence as inlined)."""
    fnode, mod, _ = self.src.find(c)
    if self.inline_depth > 6:
        raise Untranslatable("inlining too deep")
    env = self.bind_params(c, fnode, args, kwargs, st)
    self.inlined_nodes[c.qual] = fnode
    saved = (self.module, self.cur_fn, self.loop_ctx if hasattr(self, "loop_ctx") else None, self.cur_contract,
             self.cur_fnode)
    self.module, self.cur_fn, self.cur_contract, self.cur_fnode = mod, c.qual, c, fnode
    self.loop_ctx = {"n": 0}
    self.inline_depth += 1
    s = State(env, st.heap, st.pc, st.next_ref, st.ghost, st.labels)
    try:
        outs = self.ex_block(fnode.body, s)
    finally:
        self.inline_depth -= 1
        self.module, self.cur_fn, self.loop_ctx, self.cur_contract, self.cur_fnode = saved
    for o in outs:
        if o.kind in ("normal", "return"):
            v = o.value if o.kind == "return" and o.value is not None else none_val()
            s2 = State(dict(st.env), o.state.heap, o.state.pc, o.state.next_ref, o.state.ghost, o.state.labels)
            yield v, s2
        elif o.kind == "raise":
            s2 = State(dict(st.env), o.state.heap, o.state.pc, o.state.next_ref, o.state.ghost, o.state.labels)
            self.raise_buf.append(Outcome("raise", s2, exc=o.exc))
        else:
            raise Untranslatable("break/continue escaping a function")


def construct(self, cls, args, kwargs, st, node):
    """ClassName(...): allocate and run __init__ by contract."""
    obj = Val(Obj(cls), self.new_ref(st))
    c = self.reg.contracts.get(cls + ".__init__")
    if c is None:
        if self.lenient:
            # an object whose construction the contract does not speak about: fresh reference, fields unknown
            self.assume_log(f"lenient: {cls}(...) allocates a fresh object and changes nothing the contract speaks about")
            yield obj, st
            return
        raise Untranslatable(f"constructor of {cls} has no contract")
    for _, s in self.call_contract(c, [obj] + list(args), kwargs, st, node):
        yield obj, s
