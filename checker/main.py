"""./check <Cxx> [--tier quick|thorough] [--replay file]  -- decide one property on /repo's current working tree.

exit 0: every obligation discharged and every bounded stand-in passed (KNOWN-FINDING lines allowed)
exit 1: at least one `VIOLATION property=<id> replay=<path>` line
exit 2: no violation, but something is undecided (solver unknown, untranslatable construct, vanished name)
exit 3: internal error of the checker
"""
import argparse
import json
import os
import subprocess
import sys
import time
import traceback

ROOT = os.path.dirname(os.path.dirname(os.path.abspath(__file__)))
sys.path.insert(0, ROOT)
REPO = os.environ.get("PYVC_REPO", "/repo")
# runs against a scratch copy of the library (self-tests, seeded changes) never touch the committed evidence
OUT = ROOT if os.path.realpath(REPO) == "/repo" else os.path.join(ROOT, ".scratch")
VENV_PY = os.path.join(ROOT, ".venv312", "bin", "python")
LOCK = os.path.join(ROOT, "contracts", "OBLIGATIONS.lock.json")
CHECKER_CMD = "python3-vt -m pyvc.run (AST of /repo -> VCs -> z3 5.1.0 API, cvc5 1.0.3 CLI for z3's unknowns)"


def ensure_venv():
    if os.path.exists(VENV_PY):
        return
    subprocess.run(["bash", os.path.join(ROOT, "setup.sh")], check=True, stdout=subprocess.DEVNULL)


def tree_id():
    try:
        h = subprocess.check_output(["git", "-C", REPO, "rev-parse", "HEAD"], text=True, stderr=subprocess.DEVNULL).strip()
        d = subprocess.check_output(["git", "-C", REPO, "status", "--porcelain", "--", "comb_spec_searcher"], text=True,
                                    stderr=subprocess.DEVNULL).strip()
        return {"head": h, "dirty": bool(d)}
    except Exception:
        return {"head": "unknown", "dirty": True}


def load_known():
    known, fixed = [], []
    p = os.path.join(ROOT, "KNOWN_FINDINGS.jsonl")
    if os.path.exists(p):
        for line in open(p):
            line = line.strip()
            if line:
                d = json.loads(line)
                (known if d.get("status") == "known" else fixed).append(d)
    return known, fixed


def match_known(pid, v, known):
    """A violation is a known finding only if it is the listed obligation / the listed check with the listed witness
    marker; any other violation of the same property is still reported."""
    import fnmatch
    for k in known:
        if k.get("property") != pid and pid not in k.get("also_properties", []):
            continue
        if v["kind"] == "obligation":
            if any(fnmatch.fnmatch(v["obligation"], pat) for pat in k.get("obligations", [])):
                return k
        elif k.get("check") == v.get("check"):
            need = k.get("witness_contains", [])
            txt = json.dumps(v.get("witness"), default=str)
            if need and all(x in txt for x in need):
                return k
    return None


def run_harness(pid, tier, seed, budget_s):
    """Bounded stand-in: contracts on sidecar wrappers of the real functions, checked at run time."""
    mod = os.path.join(ROOT, "harness", f"{pid.lower()}.py")
    if not os.path.exists(mod):
        return None
    ensure_venv()
    os.makedirs(os.path.join(OUT, "evidence"), exist_ok=True)
    out = os.path.join(OUT, "evidence", f".{pid}.harness.json")
    env = dict(os.environ, PYTHONPATH=f"{ROOT}:{REPO}", VERIF_SEED=str(seed), VERIF_TIER=tier,
               PYTHONHASHSEED="0", PYTHONDONTWRITEBYTECODE="1")
    cmd = [VENV_PY, "-m", "harness.run", pid, "--tier", tier, "--seed", str(seed), "--out", out]
    try:
        p = subprocess.run(cmd, cwd=ROOT, env=env, capture_output=True, text=True, timeout=budget_s)
    except subprocess.TimeoutExpired:
        return {"error": f"bounded stand-in exceeded {budget_s}s", "violations": []}
    if p.returncode not in (0, 1) or not os.path.exists(out):
        return {"error": f"harness exit {p.returncode}: {p.stderr[-1500:]}", "violations": []}
    r = json.load(open(out))
    os.unlink(out)
    return r


def replay_model(pid, ob, fn_result, search=False):
    """Replay a solver counter-model on the real function (concrete Python), if a replay adapter exists.
    search=True: no model available; look for a failing input among small inputs instead (bounded)."""
    ensure_venv()
    req = {"search": search, "function": fn_result["function"], "file": fn_result["file"], "obligation": ob.get("obligation", ob.get("id")),
           "model": ob.get("model", {}), "note": ob.get("note", "")}
    env = dict(os.environ, PYTHONPATH=f"{ROOT}:{REPO}", PYTHONHASHSEED="0", PYTHONDONTWRITEBYTECODE="1")
    try:
        p = subprocess.run([VENV_PY, "-m", "harness.replay"], input=json.dumps(req), cwd=ROOT, env=env,
                           capture_output=True, text=True, timeout=120)
        if p.returncode == 0 and p.stdout.strip():
            return json.loads(p.stdout.strip().split("\n")[-1])
        return {"reproduced": False, "reason": f"replay adapter failed: {p.stderr[-500:]}"}
    except Exception as e:
        return {"reproduced": False, "reason": f"replay error {e}"}


def _norm_oid(oid):
    import re
    return re.sub(r"~\d+", "", re.sub(r"#\d+", "", oid))


def main():
    ap = argparse.ArgumentParser()
    ap.add_argument("pid")
    ap.add_argument("--tier", default=os.environ.get("VERIF_TIER", "quick"))
    ap.add_argument("--replay", default=None)
    ap.add_argument("--update-lock", action="store_true", help="development only: record the discharged obligations")
    ap.add_argument("--no-harness", action="store_true")
    ap.add_argument("--no-prove", action="store_true")
    a = ap.parse_args()
    pid, tier = a.pid, a.tier if a.tier in ("quick", "thorough") else "quick"
    seed = int(os.environ.get("VERIF_SEED", "0") or 0)
    t0 = time.time()
    from checker.props import PROPS
    meta = PROPS[pid]
    if a.replay:
        return do_replay(pid, a.replay)

    def _watchdog(*_):
        # a check must end: a hang anywhere (solver, pool, harness) becomes a checker error, never a verdict
        import multiprocessing
        print(f"CHECKER-ERROR {pid}: the check exceeded its overall time budget and was stopped", flush=True)
        for ch in multiprocessing.active_children():
            ch.terminate()
        os._exit(3)
    import signal
    signal.signal(signal.SIGALRM, _watchdog)
    signal.alarm(int(os.environ.get("VERIF_CHECK_BUDGET_S", "1800" if tier == "quick" else "14400")))
    from pyvc import run as pyrun
    timeout = 20.0 if tier == "quick" else 90.0
    results = [] if a.no_prove else pyrun.verify(props=[pid], timeout_s=timeout, repo=REPO)
    if results and tier == "quick":
        # retry ladder: a function with an undischarged (unknown) obligation is verified once more with a long budget,
        # so that verdicts do not flip when the machine is busy
        known0, _ = load_known()
        slow = sorted({r["function"].split("[")[0] for r in results
                       if any(o["status"] == "unknown" and match_known(pid, {"kind": "obligation", "obligation": o["id"]}, known0) is None
                              for o in r["obligations"])})
        if slow:
            again = pyrun.verify(props=[pid], functions=slow, timeout_s=90.0, repo=REPO)
            by = {r["function"]: r for r in again}
            results = [by.get(r["function"], r) for r in results]
    trusted = pyrun.trusted([pid])
    lock = json.load(open(LOCK)) if os.path.exists(LOCK) else {}
    locked = lock.get(pid, {}).get("obligations", {})
    locked_hash = lock.get(pid, {}).get("functions", {})
    known, fixed = load_known()
    violations, undecided, errors, known_lines = [], [], [], []
    obls = []
    n_covers = 0
    functions = []
    assumptions = set(meta.get("assumptions", []))
    for r in results:
        functions.append({"function": r["function"], "file": r["file"], "paths": r.get("paths", 0),
                          "obligations": len(r["obligations"]), "wall_s": r.get("wall_s")})
        assumptions.update(r.get("assumptions", []))
        if r["error"]:
            errors.append(f'{r["function"]}: {r["error"]}')
            continue
        if r["undecided_reason"]:
            undecided.append({"function": r["function"], "reason": r["undecided_reason"]})
        for cv in r["covers"]:
            n_covers += 1
            if cv["status"] == "unsat":
                errors.append(f'vacuity guard: {cv["id"]} has unsatisfiable hypotheses (contradictory contract or engine fault)')
        for o in r["obligations"]:
            o["function"] = r["function"]
            obls.append(o)
    seen = {}
    for o in obls:
        # several paths may produce the same obligation id; all must be discharged
        prev = seen.get(o["id"])
        rank = {"unsat": 0, "unknown": 1, "sat": 2}
        if prev is None or rank[o["status"]] > rank[prev["status"]]:
            seen[o["id"]] = o
    by_id = seen
    fn_by_name = {r["function"]: r for r in results}
    # site ordinals shift when statements are added or moved in an edited function: an obligation is "the one that was locked"
    # also when it is the same clause of the same kind of site (ordinals and path suffixes ignored)
    locked_norm = {_norm_oid(x) for x in locked}
    for oid, o in sorted(by_id.items()):
        if o["status"] == "sat":
            violations.append({"kind": "obligation", "obligation": oid, "note": o.get("note", ""), "line": o.get("line"),
                               "model": o.get("model", {}), "solver": o["solver"], "model_txt": o.get("model_txt", ""),
                               "was_locked": oid in locked, "function": o["function"],
                               "file": fn_by_name.get(o["function"], {}).get("file")})
        elif o["status"] != "unsat":
            fnr = fn_by_name.get(o["function"], {})
            changed = locked_hash.get(o["function"]) not in (None, fnr.get("source_hash"))
            why = f'{o["solver"]}: unknown {o.get("reason", "")} cvc5={o.get("cvc5", "-")}'
            if (oid in locked or _norm_oid(oid) in locked_norm) and changed:
                # discharged on the pinned tree, the function's source has changed since, and the proof no longer
                # goes through: reported as a violation without a failing input (the solver gave no model)
                violations.append({"kind": "obligation", "obligation": oid, "note": o.get("note", ""), "line": o.get("line"),
                                   "model": {}, "solver": o["solver"], "solver_output": why, "was_locked": True,
                                   "undischarged": True, "function": o["function"], "file": fnr.get("file")})
            else:
                k = match_known(pid, {"kind": "obligation", "obligation": oid}, known)
                if k is not None:
                    # a recorded finding: this obligation cannot hold on the pinned tree, whatever the solver says
                    line = f'KNOWN-FINDING: property={pid} {k["what"]}'
                    if line not in known_lines:
                        known_lines.append(line)
                else:
                    undecided.append({"obligation": oid, "reason": why, "was_locked": oid in locked,
                                      "function_source_changed": changed})
    # vacuity guard against the lock file: every function proved on the pinned tree must still produce obligations
    # (obligation ids may legitimately shift when a function body is edited, so they are not compared one by one)
    locked_fns = set(locked_hash) or {oid.split("/")[0] for oid in locked}
    have_fns = {oid.split("/")[0] for oid in by_id}
    for fnm in sorted(locked_fns - have_fns):
        if not a.no_prove and not any(u.get("function") == fnm for u in undecided):
            undecided.append({"function": fnm, "reason": "contracted function of the lock file produced no obligation on this tree"})
    # bounded stand-in
    harness = None if a.no_harness else run_harness(pid, tier, seed, 1500 if tier == "quick" else 7200)
    if harness is not None:
        if harness.get("error"):
            errors.append("bounded stand-in: " + harness["error"])
        for v in harness.get("violations", []):
            violations.append({"kind": "bounded", **v})
    # replay + known findings + report
    rdir = os.path.join(OUT, "replay", pid)
    os.makedirs(rdir, exist_ok=True)
    for f in os.listdir(rdir):          # replay files describe THIS run only
        if f.endswith(".json"):
            os.remove(os.path.join(rdir, f))
    lines = []
    n_viol = 0
    for v in violations:
        key = v.get("obligation") or v.get("check", "bounded")
        match = match_known(pid, v, known)
        if match:
            line = f'KNOWN-FINDING: property={pid} {match["what"]}'
            if line not in known_lines:
                known_lines.append(line)
            continue
        n_viol += 1
        rp = os.path.join(OUT, "replay", pid, (key.replace("/", "__").replace(" ", "_")[:150]) + ".json")
        payload = {"property": pid, "tree": tree_id(), **v}
        suffix = ""
        if v["kind"] == "obligation" and v.get("undischarged"):
            rep = replay_model(pid, v, fn_by_name[v["function"]], search=True)
            rep["note"] = ("the solver returned no counter-model (unknown); the obligation was discharged on the pinned "
                           "tree and the function's source has changed since")
            payload["replay"] = rep
            if not rep.get("reproduced"):
                suffix = " no-failing-input-found"
        elif v["kind"] == "obligation":
            rep = replay_model(pid, v, fn_by_name[v["function"]])
            payload["replay"] = rep
            if not rep.get("reproduced"):
                suffix = " no-failing-input-found"
        json.dump(payload, open(rp, "w"), indent=1, default=str)
        lines.append(f"VIOLATION property={pid} replay={rp} obligation={key}{suffix}")
    total = len(by_id)
    discharged = sum(1 for o in by_id.values() if o["status"] == "unsat")
    solver_time = round(sum(o["seconds"] for o in obls), 3)
    by_solver = {}
    for o in by_id.values():
        if o["status"] == "unsat":
            by_solver[o["solver"]] = by_solver.get(o["solver"], 0) + 1
    level = meta["level"]
    if level == "proof" and (discharged != total or total == 0):
        level_written = "other"
    else:
        level_written = level
    samples = [{"obligation": o["id"], "status": o["status"], "solver": o["solver"], "seconds": o["seconds"],
                "line": o.get("line"), "statement": o.get("note", "")[:160]} for o in list(by_id.values())[:6]]
    cov = {
        "obligations": total, "discharged": discharged, "checker_cmd": CHECKER_CMD,
        "trusted_base": sorted(set(meta.get("trusted_base", [])) | {f"trusted contract (not verified): {q}: {why}" for q, why in trusted}),
        "functions_under_contract": functions,
        "vacuity_covers_checked": n_covers, "discharged_by_backend": by_solver, "solver_time_s": solver_time,
        "undecided": undecided[:50], "obligation_list": [{"id": o["id"], "status": o["status"], "solver": o["solver"],
                                                          "seconds": o["seconds"]} for o in by_id.values()],
        "dropped_by_extraction": ["type annotations and typing.cast", "docstrings", "logger.* calls",
                                  "decorators (cssmethodtimer/cssiteratortimer treated as identity, A7)",
                                  "PyPy gc.collect_step branches"],
        "explanation": meta["explanation"],
        "samples": samples,
    }
    if harness is not None and not harness.get("error"):
        cov["bounded"] = {k: harness.get(k) for k in ("bound", "evaluations", "distinct_nontrivial", "rule", "exhaustive",
                                                       "contracts_evaluated", "sections")}
        cov["evaluations"] = int(harness.get("evaluations", 0))
        cov["distinct_nontrivial"] = int(harness.get("distinct_nontrivial", 0))
        cov["rule"] = harness.get("rule", "")
        cov["samples"] = samples + list(harness.get("samples", []))[:6]
        if "exhaustive" in harness:
            cov["exhaustive"] = bool(harness["exhaustive"])
    ev = {"property_id": pid, "tier": tier, "seed": seed, "level": level_written, "coverage": cov,
          "assumptions": sorted(assumptions), "wall_s": round(time.time() - t0, 2), "violations": n_viol,
          "known_findings": known_lines, "tree": tree_id(), "errors": errors[:20]}
    os.makedirs(os.path.join(OUT, "evidence"), exist_ok=True)
    json.dump(ev, open(os.path.join(OUT, "evidence", f"{pid}.json"), "w"), indent=1, default=str)
    if a.update_lock:
        lock[pid] = {"obligations": {oid: o["solver"] for oid, o in sorted(by_id.items()) if o["status"] == "unsat"},
                     "functions": {r["function"]: r.get("source_hash") for r in results if not r["error"]}}
        json.dump(lock, open(LOCK, "w"), indent=1, sort_keys=True)
    for ln in known_lines:
        print(ln)
    for ln in lines:
        print(ln)
    b = cov.get("bounded") or {}
    print(f"{pid}: proved {discharged}/{total} obligations over {len(functions)} functions "
          f"({by_solver}); bounded evaluations={b.get('evaluations', 0)}; violations={n_viol}; "
          f"undecided={len(undecided)}; errors={len(errors)}; {ev['wall_s']}s")
    if lines:
        return 1
    if errors:
        for e in errors[:10]:
            print("CHECKER-ERROR", e[:600])
        return 3
    if undecided:
        for u in undecided[:10]:
            print("UNDECIDED", json.dumps(u)[:400])
        return 2
    if total == 0 and harness is None:
        print("CHECKER-ERROR zero obligations and no bounded stand-in")
        return 3
    return 0


def do_replay(pid, path):
    d = json.load(open(path))
    ensure_venv()
    if d.get("kind") == "obligation":
        rep = replay_model(pid, d, {"function": d["function"], "file": d.get("file")})
        print(json.dumps(rep, indent=1))
        return 1 if rep.get("reproduced") else 0
    env = dict(os.environ, PYTHONPATH=f"{ROOT}:{REPO}", PYTHONHASHSEED="0")
    p = subprocess.run([VENV_PY, "-m", "harness.run", pid, "--replay", path], cwd=ROOT, env=env)
    return p.returncode


if __name__ == "__main__":
    try:
        sys.exit(main())
    except SystemExit:
        raise
    except Exception:
        traceback.print_exc()
        print("CHECKER-ERROR internal error")
        sys.exit(3)
