"""Per-property metadata used by the evidence writer (levels, trusted base, standing assumptions)."""
A1 = "A1: Python semantics as encoded by pyvc (DESIGN.md 2.2): mathematical ints, list/dict/set/deque/Counter operations, exception matching, CPython MutableMapping mixins"
A2 = "A2: user classes/strategies honour the documented contracts (lawful __eq__/__hash__, deterministic is_empty/is_atom/minimum_size_of_object, honest extra_parameters, from_bytes(to_bytes(c)) == c)"
A3 = "A3: external libraries per documentation (sympy, zlib, pickle, copy, random uniform, itertools, functools, collections)"
A4 = "A4: generators are treated as the eager sequence of their yielded values"
A5 = "A5: dict/set iteration order is an arbitrary duplicate-free enumeration of the keys"
A7 = "A7: timing decorators and logging have no effect on results"
A8 = "A8: soundness of z3 5.1.0 / cvc5 1.0.3 and of the pyvc VC generator (mitigated by mutation self-tests, canaries, CPython replay of counter-models)"
L1 = "A6/L1 (paper lemma, not machine checked): closed + locally correct + shift-respecting + productive rule set computes the true terms for every n"

BASE = [A1, A8]

PROPS = {}


def P(pid, level, explanation, trusted=(), assumptions=()):
    PROPS[pid] = {"level": level, "explanation": explanation, "trusted_base": list(BASE) + list(trusted),
                  "assumptions": list(BASE) + list(trusted) + list(assumptions)}


_mix = ("Contract-based deductive verification: obligations are generated from the AST of the real functions in /repo on "
        "this run and discharged by z3/cvc5 for all inputs and all loop iterations (coverage.obligations/discharged, "
        "coverage.functions_under_contract). What the contracts cannot carry is covered by a bounded stand-in: the same "
        "contracts checked at run time on the real code over an enumerated family (coverage.bounded, never counted as proved). ")

P("C01", "other", _mix + "Proved: the search loop returns rules only after a positive has_specification for every clock schedule; cache discipline of _ensure_level and count_objects_of_size; provider wiring (set_subrecs); parameter composition of equivalence paths; compositions sound and complete. Bounded: counts vs brute force on the toy universe, 3 rule databases, all options and schedules.", [A2, L1, A7])
P("C02", "other", _mix + "Proved: extractor self-check (closed, one rule per class); rules_up_to_equivalence; forest keys carry the labels and shifts of the rule; strategy and reverse shifts; default shifts of verification rules. Bounded: closure, unique lhs, independent productivity fixed point (own shifts) on returned specifications.", [A2, A5])
P("C03", "other", _mix + "Proved: DefaultList, Function (histogram deltas), smallest-gap search, firing condition, initial shifts of an inserted rule, gap bookkeeping, the table invariant (values non-negative, stored keys well formed, rows of the index structures distinct) established by __init__ and kept by add_rule_key/_increase_value/_set_infinite/_process_queue; the propagation loop fires a rule only when all its shifts are positive or infinite and for that rule's own parent, declares infinity only with an empty queue and above the gap, values only grow; add_rule_key records every finite child position among the rules using that class. Not proved: exception freedom of the propagation, the shift-table updates themselves (shift = value(child)+declared-value(parent)), and that the result is the least fixed point. Bounded: least-fixed-point oracle over small rule multisets and all insertion orders.", [A5])
P("C04", "other", _mix + "Proved: labels of the rules recorded by _expand_class_with_strategy, _clean_labels, RuleDBBase.add, add_rule (recorded under its own labels; set_empty only for non-possibly-empty strategies). Bounded: monitor on RuleDB.add during real searches.", [A2, A4])
P("C05", "other", _mix + "Proved: add, contains, rules_up_to_equivalence, pruned_dict root and cache discipline, has_specification, which root the tree finders and the extractor are given. Bounded: prune fixed point and all finders on all small rule dictionaries.", [A5, A3])
P("C06", "other", _mix + "Proved: union-find against a ghost representative map (find with path compression, union by weight, verified flags, edges, one-way table rebuilt over representatives). Bounded: SCC oracle on all short histories (connect_cycles).", [A5])
P("C07", "other", _mix + "Proved: DisjointUnion.get_sub_objects and __init__ (zero sets), EquivalenceRule.__init__ (kept child), path/equivalence constructors and maps, the object cache (_ensure_level_objects: level k is built from the constructor's sub-objects of size exactly k with the rule's own providers, cached levels are never rewritten; get_objects returns level n). Bounded: generated objects = brute force, map round trips.", [A2, A4, L1])
P("C08", "other", _mix + "Proved: threshold walks of both random_sample_sub_objects for every randint outcome (incl. zero-skip and composition weights), Rule.random_sample_object_of_size hands count/samplers/size on. Bounded: exact distribution with enumerated RNG.", [A2, A3, L1])
P("C09", "other", _mix + "Proved: parameter maps and their builders, CartesianProduct size bounds, compositions sound and complete, DisjointUnion.__init__, EquivalenceRule/EquivalencePathRule constructors. Bounded: rule terms vs brute force for every derived form.", [A2, A3, A4])
P("C10", "proof", "Every obligation of the shift theorem is generated from the real source and discharged (obligations == discharged); the bounded provider-trace monitor is reported separately and not counted.", [A2, A4])
P("C11", "other", _mix + "Proved: pumping_subuniverse, preimage, is_pumping, forest keys, add_rule_key, _is_productive, _find_rule, bookkeeping of _minimize_key (a rule is kept only after the productivity test without it failed), order check-then-rules. Bounded: 1-minimality and productivity on integer universes and real searches (monotonicity lemma L3 is assumed, not proved).", [A5])
P("C12", "other", _mix + "Proved: inverse permutation, stack discipline, inverse tables of Bijection.__init__, orientation of map/inverse_map, atoms matched only at equal size. Bounded: bijections on toy specifications (map onto, inverse undoes).", [A2, L1])
P("C13", "other", _mix + "Proved: _create_spec rooted at the start label, _eq_path_matches (same length and pairwise match). Bounded: all toy pairs, both finders.", [A2])
P("C14", "other", _mix + "Proved: contains, key flattening (round-trip lemma), RecomputingDict key-set operations, add in both databases against one contract. Bounded: lock-step of both databases on two universes.", [A2, A5])
P("C15", "proof", "Every public ClassDB operation is verified against the abstract view (list of keys, emptiness list) with frames; obligations == discharged. Interleaving enumeration is reported separately and not counted.", [A2, A3])
P("C16", "other", _mix + "Proved: the constructors establish the representation invariant, hand-out guard of __next__, add, set_* flags, _iter_helper_working and _iter_helper_curr (whole yield sequences: the first non-empty stage is served for its head label, one packet per strategy of that expansion group in order, then the label moves one stage on / is retired from the last stage), _change_level (exhaustion exactly when nothing waits; as many labels enter the first stage as were waiting; the level counter advances), _populate_staging, do_level. No scheduling function is trusted. Not proved: which labels enter a new level (enumeration of a Counter) and the whole-history statements (no packet twice, completeness once drained). Bounded: completeness of scheduling on all short histories.", [A5])
P("C17", "other", _mix + "Proved: verified status and class are looked up at the moment of each packet (_expand_classes_for), __eq__/pickle structure (AST obligations). Bounded: pickle/time-limit at every prefix, slicing independence.", [A3, A7])
P("C18", "other", _mix + "Proved: key sets of every to_jsonable/from_dict pair (rules, strategies, packs, specifications), loaded verification rules rebuilt by the strategy, bijection JSON maps. Bounded: round trips.", [A2, A3])
P("C19", "other", _mix + "Proved: unexpanded_verified_classes yields exactly the expandable classes, expand_verified exit condition and frame, configuration of the inner searcher. Bounded: toy specifications with (nested) verified classes.", [A2, A3])
P("C20", "other", _mix + "Proved: substitutions of union/product equations, refusal of quotient/complement equations iff some child has parameters, argument order of Rule.get_equation. Bounded: coefficientwise series check (sympy is outside SMT reach).", [A2, A3])
