"""Per-property metadata used by the evidence writer (levels, trusted base, standing assumptions)."""
A1 = "A1: Python semantics as encoded by pyvc (DESIGN.md 2.2): mathematical ints, list/dict/set/deque/Counter operations, exception matching, CPython MutableMapping mixins"
A2 = "A2: user classes/strategies honour the documented contracts (lawful __eq__/__hash__, deterministic is_empty/is_atom/minimum_size_of_object, honest extra_parameters, from_bytes(to_bytes(c)) == c)"
A3 = "A3: external libraries per documentation (sympy, zlib, pickle, copy, random uniform, itertools, functools, collections)"
A4 = "A4: generators are treated as the eager sequence of their yielded values"
A5 = "A5: dict/set iteration order is an arbitrary duplicate-free enumeration of the keys"
A7 = "A7: timing decorators and logging have no effect on results"
A8 = "A8: soundness of z3 5.1.0 / cvc5 1.0.3 and of the pyvc VC generator (mitigated by mutation self-tests, canaries, CPython replay of counter-models)"
L1 = "A6/L1 (paper lemma, not machine checked): closed + locally correct + shift-respecting + productive rule set computes the true terms for every n"

BASE = [A1, A8]

PROPS = {}


def P(pid, level, explanation, trusted=(), assumptions=()):
    PROPS[pid] = {"level": level, "explanation": explanation, "trusted_base": list(BASE) + list(trusted),
                  "assumptions": list(BASE) + list(trusted) + list(assumptions)}


_mix = ("Contract-based deductive verification: obligations are generated from the AST of the real functions in /repo on "
        "this run and discharged by z3/cvc5 for all inputs and all loop iterations (coverage.obligations/discharged, "
        "coverage.functions_under_contract). What the contracts cannot carry is covered by a bounded stand-in: the same "
        "contracts checked at run time on the real code over an enumerated family (coverage.bounded, never counted as proved). ")

P("C01", "other", _mix + "Proved: search loop returns rules only after a positive has_specification; cache discipline of _ensure_level; provider wiring. Bounded: counts vs brute force on the toy universe.", [A2, L1, A7])
P("C02", "other", _mix + "Proved: extractor self-check implies closure; one rule per key. Bounded: closure, unique lhs, independent productivity fixed point on returned specifications.", [A2, A5])
P("C03", "other", _mix + "Proved: Function histogram invariant, smallest-gap search, shift computation, firing condition. Bounded: least-fixed-point oracle over all small rule multisets and insertion orders.", [A5])
P("C04", "other", _mix + "Proved: dispatch, labelling and cleaning of rules before insertion. Bounded: monitor on RuleDB.add during real searches.", [A2, A4])
P("C05", "other", _mix + "Proved: prune closure/no-empty/subset, pruned_dict root and cache discipline, has_specification. Bounded: all finders on all small rule dictionaries.", [A5, A3])
P("C06", "other", _mix + "Proved: union-find find/union/verified contracts. Bounded: SCC oracle on all short histories.", [A5])
P("C07", "other", _mix + "Proved: sub-object enumeration plumbing. Bounded: generated objects = brute force.", [A2, A4, L1])
P("C08", "other", _mix + "Proved: threshold walk invariants for every randint outcome. Bounded: exact distribution with enumerated RNG.", [A2, A3, L1])
P("C09", "other", _mix + "Proved: parameter maps and their builders. Bounded: rule terms vs brute force for every derived form.", [A2, A3, A4])
P("C10", "proof", "Every obligation of the shift theorem is generated from the real source and discharged (obligations == discharged); the bounded provider-trace monitor is reported separately and not counted.", [A2, A4])
P("C11", "other", _mix + "Proved: greedy minimisation against an abstract monotone productivity predicate. Bounded: integer universes.", [A5])
P("C12", "other", _mix + "Proved: inverse permutation, stack discipline, symmetry of parameter matching. Bounded: bijections on toy specifications.", [A2, L1])
P("C13", "other", _mix + "Proved: call-site obligations of _create_spec/_create_tree. Bounded: all toy pairs.", [A2])
P("C14", "other", _mix + "Proved: contains, key flattening, RecomputingDict key-set operations. Bounded: lock-step of both databases.", [A2, A5])
P("C15", "proof", "Every public ClassDB operation is verified against the abstract view (list of keys, emptiness list) with frames; obligations == discharged. Interleaving enumeration is reported separately and not counted.", [A2, A3])
P("C16", "other", _mix + "Proved: hand-out guard, flag/level bookkeeping. Bounded: all short histories.", [A5])
P("C17", "other", _mix + "Proved: ownership/frame and interruption-point obligations. Bounded: pickle/time-limit at every prefix.", [A3, A7])
P("C18", "other", _mix + "Proved: key-set match of to_jsonable/from_dict pairs, strategy equality. Bounded: round trips.", [A2, A3])
P("C19", "other", _mix + "Proved: expand_verified exit condition and frames. Bounded: toy specifications with verified classes.", [A2, A3])
P("C20", "other", _mix + "Proved: substitution maps and dispatch only; the series statement is bounded (sympy is outside SMT reach).", [A2, A3])
