"""Regenerate /verif/MANIFEST.json from checker/props.py and the list of properties that have a check."""
import json, os, sys
ROOT = os.path.dirname(os.path.dirname(os.path.abspath(__file__)))
sys.path.insert(0, ROOT)
from checker.props import PROPS
from checker.claims import CLAIMED, NOT_APPLICABLE, TECHNIQUE

man = {
    "version": 1,
    "setup_cmd": "bash ./setup.sh",
    "hooks": {"guard": "COMB_SPEC_SEARCHER_VERIF",
              "enable": "no source hooks: contracts are sidecar files under /verif/contracts keyed by qualified name and loop ordinal; every check re-reads /repo's working tree",
              "baseline_off_cmd": "cd /repo && /venv/bin/python -m pytest -ra -q -p no:cacheprovider --timeout=900 --continue-on-collection-errors",
              "source_commits": [], "add_only": True},
    "engines": [
        {"name": "pyvc", "path": "pyvc/", "serves_properties": sorted(CLAIMED),
         "kind_free_text": "contract-based deductive verifier for a Python subset: symbolic execution of the real AST with sidecar contracts, loop invariants, heap model; VCs discharged by z3 5.1.0 (API) and cvc5 1.0.3 (CLI)"},
        {"name": "harness", "path": "harness/", "serves_properties": sorted(CLAIMED),
         "kind_free_text": "bounded stand-ins: the same contracts checked at run time on the real code over enumerated families (toy universe, integer universes, operation histories); never counted as proved"},
    ],
    "checks": [], "not_applicable": [],
    "notes": "Exit codes: 0 held, 1 violation (VIOLATION line), 2 undecided (solver unknown / untranslatable), 3 checker error. See DESIGN.md.",
}
for pid in sorted(PROPS):
    if pid in CLAIMED:
        m = PROPS[pid]
        man["checks"].append({
            "property_id": pid, "quick_cmd": f"./check {pid} --tier quick", "thorough_cmd": f"./check {pid} --tier thorough",
            "evidence_file": f"evidence/{pid}.json", "replay_cmd_template": f"./check {pid} --replay {{path}}",
            "engine": "pyvc+harness",
            "level_claimed": {"category": m["level"], "text": m["explanation"], "design_ref": f"DESIGN.md section 5, {pid}"},
            "level_note": "; ".join(m["trusted_base"]),
            "technique": TECHNIQUE.get(pid, "contract-based deductive verification (AST -> VCs -> z3/cvc5) + run-time contract checking on enumerated inputs (bounded stand-in)"),
        })
    else:
        man["not_applicable"].append({"property_id": pid, "reason": NOT_APPLICABLE.get(pid, "check under construction; not claimed yet")})
json.dump(man, open(os.path.join(ROOT, "MANIFEST.json"), "w"), indent=1)
print("claimed", sorted(CLAIMED))
