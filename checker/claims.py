CLAIMED = {f"C{i:02d}" for i in range(1, 21)}
NOT_APPLICABLE = {}
TECHNIQUE = {}
